//! Instrumented actors. One generic `Probe<T>`; `T` only provides distinct `TypeId`s so that two
//! service types (and one plain type) exist. Uses nothing but hannibal's public API.
use crate::log::*;
use crate::model::*;
use futures::Stream;
use hannibal::prelude::*;
use hannibal::{Addr, RestartableActor, WeakAddr};
use std::cell::RefCell;
use std::collections::{BTreeMap, VecDeque};
use std::future::Future;
use std::marker::PhantomData;
use std::pin::Pin;
use std::sync::Arc;
use std::sync::atomic::{AtomicU32, Ordering};
use std::task::{Context as TCx, Poll, Waker};
use std::time::Duration;

// ------------------------------------------------------------------------------------------
// tags

pub trait TagT: Send + Sync + 'static {
    const TAG: Tag;
    /// actor index used when an instance is created by `Default::default()`
    fn default_aidx() -> ActorIdx;
}
pub struct Plain;
pub struct TA;
pub struct TB;
impl TagT for Plain {
    const TAG: Tag = Tag::Plain;
    fn default_aidx() -> ActorIdx {
        with_h(|h| h.recreate_hint.take()).expect("harness: Default for plain probe without hint")
    }
}
impl TagT for TA {
    const TAG: Tag = Tag::SvcA;
    fn default_aidx() -> ActorIdx {
        AIDX_SVC_A
    }
}
impl TagT for TB {
    const TAG: Tag = Tag::SvcB;
    fn default_aidx() -> ActorIdx {
        AIDX_SVC_B
    }
}
pub type P = Probe<Plain>;
pub type SA = Probe<TA>;
pub type SB = Probe<TB>;

// ------------------------------------------------------------------------------------------
// harness-global (thread-local) context of the current run

pub struct Gate {
    pub open: bool,
    pub wakers: Vec<Waker>,
}

pub struct HCtx {
    pub scn: Arc<Scenario>,
    pub next_inst: u32,
    /// id of the last task that existed before the current spawn entry point was called
    pub spawn_mark: Option<u32>,
    pub cb_count: BTreeMap<ActorIdx, u32>,
    pub start_count: BTreeMap<ActorIdx, u32>,
    pub recreate_hint: Option<ActorIdx>,
    pub weak: BTreeMap<ActorIdx, WeakAddr<P>>,
    pub gates: BTreeMap<u32, Gate>,
    pub nonce: u64,
}

thread_local! {
    static HCTX: RefCell<Option<HCtx>> = const { RefCell::new(None) };
}

pub fn install(scn: Arc<Scenario>) {
    HCTX.with(|h| {
        *h.borrow_mut() = Some(HCtx {
            scn,
            next_inst: 0,
            spawn_mark: None,
            cb_count: BTreeMap::new(),
            start_count: BTreeMap::new(),
            recreate_hint: None,
            weak: BTreeMap::new(),
            gates: BTreeMap::new(),
            nonce: 0,
        })
    });
}
pub fn uninstall() {
    let old = HCTX.with(|h| h.borrow_mut().take());
    drop(old);
}
pub fn with_h<R>(f: impl FnOnce(&mut HCtx) -> R) -> R {
    HCTX.with(|h| f(h.borrow_mut().as_mut().expect("harness context not installed")))
}
pub fn next_nonce() -> u64 {
    with_h(|h| {
        h.nonce += 1;
        h.nonce
    })
}

pub struct InjectedPanic;

pub static SPAWN_CHILD: std::sync::OnceLock<fn(ActorIdx) -> Addr<P>> = std::sync::OnceLock::new();

enum FaultAct {
    None,
    Err,
    Panic,
}

fn fault_check(aidx: ActorIdx, cb: Cb) -> FaultAct {
    with_h(|h| {
        let k = {
            let c = h.cb_count.entry(aidx).or_insert(0);
            *c += 1;
            *c - 1
        };
        let mut act = FaultAct::None;
        if cb == Cb::Started {
            let n = {
                let c = h.start_count.entry(aidx).or_insert(0);
                *c += 1;
                *c - 1
            };
            if h.scn.faults.iter().any(|f| f.actor == aidx && f.kind == FaultKind::StartErr { nth: n }) {
                act = FaultAct::Err;
            }
        }
        if h.scn.faults.iter().any(|f| f.actor == aidx && f.kind == FaultKind::PanicAtCb { k }) {
            act = FaultAct::Panic;
        }
        act
    })
}

// ------------------------------------------------------------------------------------------
// messages

#[derive(Clone, Debug)]
pub struct Msg {
    pub id: u64,
    pub work: Arc<Vec<Work>>,
}
impl Message for Msg {
    type Response = ();
}

#[derive(Debug)]
pub struct Ask {
    pub id: u64,
    pub nonce: u64,
    pub work: Arc<Vec<Work>>,
}
impl Message for Ask {
    type Response = Reply;
}

#[derive(Clone, Debug)]
pub struct Topic1 {
    pub id: u64,
}
impl Message for Topic1 {
    type Response = ();
}
#[derive(Clone, Debug)]
pub struct Topic2 {
    pub id: u64,
}
impl Message for Topic2 {
    type Response = ();
}

pub struct Item {
    pub id: u64,
}

pub struct Tick {
    pub aidx: ActorIdx,
    pub inst: u32,
    pub reg_inc: u32,
    pub timer: u32,
    pub n: u32,
    pub handler_sleep: u64,
    ctr: Arc<AtomicU32>,
}
impl Message for Tick {
    type Response = ();
}
impl Tick {
    fn submit(&self) -> Tick {
        let n = self.ctr.fetch_add(1, Ordering::Relaxed);
        log(Ev::TimerSubmit { aidx: self.aidx, inst: self.inst, reg_inc: self.reg_inc, timer: self.timer, n });
        Tick {
            aidx: self.aidx,
            inst: self.inst,
            reg_inc: self.reg_inc,
            timer: self.timer,
            n,
            handler_sleep: self.handler_sleep,
            ctr: self.ctr.clone(),
        }
    }
}
/// `Context::interval` clones the message immediately before every submission: the clone is the
/// submission instant.
impl Clone for Tick {
    fn clone(&self) -> Tick {
        self.submit()
    }
}
/// message id of the n-th tick of `timer`, registered by value `inst` in its `reg_inc`-th incarnation
pub fn tick_id(inst: u32, reg_inc: u32, timer: u32, n: u32) -> u64 {
    (1u64 << 62) | (((inst & 0xfff) as u64) << 50) | (((reg_inc & 0x3f) as u64) << 44) | (((timer & 0xff) as u64) << 36) | n as u64
}

// ------------------------------------------------------------------------------------------
// the probe actor

pub struct Probe<T: TagT> {
    pub inst: u32,
    pub aidx: ActorIdx,
    pub inc: u32,
    pub entered: Vec<u64>,
    pub exited: Vec<u64>,
    pub stopped_mark: u32,
    pub invocations: u32,
    pub spec: Arc<ActorSpec>,
    _t: PhantomData<fn() -> T>,
}

impl<T: TagT> Probe<T> {
    pub fn new(aidx: ActorIdx) -> Self {
        Self::create(aidx, false)
    }
    fn create(aidx: ActorIdx, by_default: bool) -> Self {
        let (inst, spec) = with_h(|h| {
            let i = h.next_inst;
            h.next_inst += 1;
            (i, Arc::new(h.scn.spec_of(aidx).clone()))
        });
        log(Ev::Created { inst, aidx, by_default });
        Probe {
            inst,
            aidx,
            inc: 0,
            entered: vec![],
            exited: vec![],
            stopped_mark: 0,
            invocations: 0,
            spec,
            _t: PhantomData,
        }
    }

    pub fn digest(&self) -> u64 {
        digest_of(&self.entered, &self.exited)
    }

    pub fn join_val(&self) -> JoinVal {
        JoinVal {
            inst: self.inst,
            aidx: self.aidx,
            inc: self.inc,
            entered: self.entered.clone(),
            exited: self.exited.clone(),
            stopped_mark: self.stopped_mark,
        }
    }

    /// callback entry: log, count, consult the fault table
    fn enter(&mut self, cb: Cb, id: u64) -> bool {
        log(Ev::CbEnter { inst: self.inst, aidx: self.aidx, inc: self.inc, cb, id });
        match fault_check(self.aidx, cb) {
            FaultAct::None => {}
            FaultAct::Err => {
                log(Ev::FaultFired { actor: self.aidx, what: 0 });
                return false;
            }
            FaultAct::Panic => {
                log(Ev::FaultFired { actor: self.aidx, what: 1 });
                std::panic::panic_any(InjectedPanic);
            }
        }
        if cb.is_handler() {
            self.entered.push(id);
            self.invocations += 1;
        }
        true
    }
    fn exit(&mut self, cb: Cb, id: u64, ok: bool) {
        if cb.is_handler() {
            self.exited.push(id);
        }
        log(Ev::CbExit { inst: self.inst, aidx: self.aidx, inc: self.inc, cb, id, ok });
    }
}

pub fn digest_of(entered: &[u64], exited: &[u64]) -> u64 {
    let mut h = 0xcbf2_9ce4_8422_2325u64;
    for v in entered.iter().chain(std::iter::once(&u64::MAX)).chain(exited.iter()) {
        h ^= *v;
        h = h.wrapping_mul(0x0000_0100_0000_01B3);
        h ^= h >> 29;
    }
    h
}

impl<T: TagT> Default for Probe<T> {
    fn default() -> Self {
        Self::create(T::default_aidx(), true)
    }
}

impl<T: TagT> Probe<T> {
    async fn run_work(&mut self, ctx: &mut Context<Self>, id: u64, work: &[Work]) {
        for (k, w) in work.iter().enumerate() {
            log(Ev::Progress { inst: self.inst, id, k: k as u32 });
            match w {
                Work::Sleep(d) => simrt::sleep_ns(*d).await,
                Work::Yield(n) => {
                    for _ in 0..*n {
                        simrt::yield_now().await
                    }
                }
                Work::CtxStop => {
                    let ok = ctx.stop().is_ok();
                    log(Ev::CtxRes { inst: self.inst, aidx: self.aidx, id, what: CtxOp::Stop, ok });
                }
                Work::CtxRestart => {
                    let ok = ctx.restart().is_ok();
                    log(Ev::CtxRes { inst: self.inst, aidx: self.aidx, id, what: CtxOp::Restart, ok });
                }
                Work::Timer(t) => self.register_timer(ctx, t),
                Work::Child { spec, under } => {
                    // through a function pointer: keeps the child's loop future out of this
                    // future's type (no auto-trait cycle)
                    let f = *SPAWN_CHILD.get().expect("spawn_child not installed");
                    let addr: Addr<P> = f(*spec);
                    match under {
                        ChildKey::Unit => ctx.add_child(addr),
                        ChildKey::Msg => ctx.register_child::<Msg>(addr),
                        ChildKey::Topic1 => ctx.register_child::<Topic1>(addr),
                    }
                    log(Ev::ChildAdded { parent: self.aidx, parent_inst: self.inst, child: *spec, key: *under });
                }
                Work::Broadcast { key, id: bid } => {
                    log(Ev::Broadcast { parent: self.aidx, parent_inst: self.inst, key: *key, id: *bid });
                    match key {
                        ChildKey::Unit => ctx.send_to_children(()),
                        ChildKey::Msg => ctx.send_to_children(Msg { id: *bid, work: Arc::new(vec![]) }),
                        ChildKey::Topic1 => ctx.send_to_children(Topic1 { id: *bid }),
                    }
                }
                Work::Subscribe(t) => {
                    let ok = match t {
                        1 => ctx.subscribe::<Topic1>().await.is_ok(),
                        _ => ctx.subscribe::<Topic2>().await.is_ok(),
                    };
                    log(Ev::CtxRes { inst: self.inst, aidx: self.aidx, id, what: CtxOp::Subscribe(*t), ok });
                }
                Work::Publish { topic, id: pid } => {
                    #[cfg(not(feature = "rt-smol"))]
                    {
                        let ok = match topic {
                            1 => ctx.publish(Topic1 { id: *pid }).await.is_ok(),
                            _ => ctx.publish(Topic2 { id: *pid }).await.is_ok(),
                        };
                        log(Ev::CtxRes { inst: self.inst, aidx: self.aidx, id, what: CtxOp::Publish(*topic), ok });
                    }
                    #[cfg(feature = "rt-smol")]
                    {
                        let _ = (topic, pid);
                    }
                }
                Work::CallPeer { target, id: cid } => {
                    let peer = with_h(|h| h.weak.get(target).and_then(|w| w.upgrade()));
                    let res = match peer {
                        None => Res::Handle(false),
                        Some(addr) => {
                            let nonce = next_nonce();
                            match addr.call(Ask { id: *cid, nonce, work: Arc::new(vec![]) }).await {
                                Ok(r) => Res::Reply(r),
                                Err(e) => Res::Err(e.into()),
                            }
                        }
                    };
                    log(Ev::PeerRes { inst: self.inst, id: *cid, target: *target, res });
                }
                Work::SelfUpgrade => {
                    let ok = ctx.weak_address().and_then(|w| w.upgrade()).is_some();
                    log(Ev::CtxRes { inst: self.inst, aidx: self.aidx, id, what: CtxOp::SelfUpgrade, ok });
                }
                Work::Panic => {
                    log(Ev::FaultFired { actor: self.aidx, what: 2 });
                    std::panic::panic_any(InjectedPanic)
                }
            }
        }
        log(Ev::Progress { inst: self.inst, id, k: work.len() as u32 });
    }

    fn register_timer(&mut self, ctx: &mut Context<Self>, t: &TimerSpec) {
        let proto = Tick {
            aidx: self.aidx,
            inst: self.inst,
            reg_inc: self.inc,
            timer: t.id,
            n: 0,
            handler_sleep: t.handler_sleep,
            ctr: Arc::new(AtomicU32::new(0)),
        };
        log(Ev::TimerReg { inst: self.inst, aidx: self.aidx, inc: self.inc, timer: t.id, kind: t.kind, period: t.period });
        let d = Duration::from_nanos(t.period);
        match t.kind {
            TimerKind::Interval => ctx.interval(proto, d),
            TimerKind::IntervalWith => ctx.interval_with(move || proto.submit(), d),
            TimerKind::DelayedSend => ctx.delayed_send(move || proto.submit(), d),
            TimerKind::DelayedExec => ctx.delayed_exec(
                async move {
                    let _ = proto.submit();
                },
                d,
            ),
        }
    }
}

impl<T: TagT> Actor for Probe<T> {
    const NAME: &'static str = "Probe";

    async fn started(&mut self, ctx: &mut Context<Self>) -> DynResult<()> {
        self.inc += 1;
        if !self.enter(Cb::Started, 0) {
            self.exit(Cb::Started, 0, false);
            return Err("injected start failure".into());
        }
        let spec = self.spec.clone();
        self.run_work(ctx, 0, &spec.on_start).await;
        self.exit(Cb::Started, 0, true);
        Ok(())
    }

    async fn stopped(&mut self, ctx: &mut Context<Self>) {
        self.enter(Cb::Stopped, 0);
        if let Some(t) = self.spec.stopped_timer.clone() {
            self.register_timer(ctx, &t);
        }
        for _ in 0..self.spec.stopped_yields {
            simrt::yield_now().await;
        }
        if self.spec.stopped_sleep > 0 {
            simrt::sleep_ns(self.spec.stopped_sleep).await;
        }
        self.stopped_mark += 1;
        if T::TAG == Tag::Plain {
            // a recreate-from-default restart calls `Default::default()` right after this returns
            with_h(|h| h.recreate_hint = Some(self.aidx));
        }
        self.exit(Cb::Stopped, 0, true);
    }
}
impl<T: TagT> RestartableActor for Probe<T> {}
impl<T: TagT> Service for Probe<T> {}

impl<T: TagT> Handler<Msg> for Probe<T> {
    async fn handle(&mut self, ctx: &mut Context<Self>, m: Msg) {
        self.enter(Cb::Msg, m.id);
        self.run_work(ctx, m.id, &m.work).await;
        self.exit(Cb::Msg, m.id, true);
    }
}

impl<T: TagT> Handler<Ask> for Probe<T> {
    async fn handle(&mut self, ctx: &mut Context<Self>, m: Ask) -> Reply {
        self.enter(Cb::Ask, m.id);
        self.run_work(ctx, m.id, &m.work).await;
        let r = Reply {
            id: m.id,
            nonce: m.nonce,
            inst: self.inst,
            aidx: self.aidx,
            inc: self.inc,
            invocation: self.invocations,
            digest: self.digest(),
            n_entered: self.entered.len() as u32,
        };
        self.exit(Cb::Ask, m.id, true);
        r
    }
}

impl<T: TagT> Handler<Tick> for Probe<T> {
    async fn handle(&mut self, _ctx: &mut Context<Self>, m: Tick) {
        let id = tick_id(m.inst, m.reg_inc, m.timer, m.n);
        self.enter(Cb::Tick, id);
        if m.handler_sleep > 0 {
            simrt::sleep_ns(m.handler_sleep).await;
        }
        self.exit(Cb::Tick, id, true);
    }
}

impl<T: TagT> Handler<Topic1> for Probe<T> {
    async fn handle(&mut self, _ctx: &mut Context<Self>, m: Topic1) {
        self.enter(Cb::Topic(1), m.id);
        self.exit(Cb::Topic(1), m.id, true);
    }
}
impl<T: TagT> Handler<Topic2> for Probe<T> {
    async fn handle(&mut self, _ctx: &mut Context<Self>, m: Topic2) {
        self.enter(Cb::Topic(2), m.id);
        self.exit(Cb::Topic(2), m.id, true);
    }
}
impl<T: TagT> Handler<()> for Probe<T> {
    async fn handle(&mut self, _ctx: &mut Context<Self>, _m: ()) {
        self.enter(Cb::Unit, 0);
        self.exit(Cb::Unit, 0, true);
    }
}

impl<T: TagT> StreamHandler<Item> for Probe<T> {
    async fn handle(&mut self, _ctx: &mut Context<Self>, m: Item) {
        self.enter(Cb::Item, m.id);
        // a stream item handler that suspends, so that "an item being handled is never abandoned"
        // has something to bite on
        simrt::yield_now().await;
        self.exit(Cb::Item, m.id, true);
    }
    async fn finished(&mut self, _ctx: &mut Context<Self>) {
        self.enter(Cb::Finished, 0);
        self.exit(Cb::Finished, 0, true);
    }
}

// ------------------------------------------------------------------------------------------
// scripted stream

pub struct SimStream {
    aidx: ActorIdx,
    script: VecDeque<StreamItem>,
    ends: bool,
    delay: Option<simrt::Sleep>,
    ended: bool,
}
impl SimStream {
    pub fn new(aidx: ActorIdx, spec: &StreamSpec) -> SimStream {
        SimStream { aidx, script: spec.script.iter().cloned().collect(), ends: spec.ends, delay: None, ended: false }
    }
}
impl Stream for SimStream {
    type Item = Item;
    fn poll_next(self: Pin<&mut Self>, cx: &mut TCx<'_>) -> Poll<Option<Item>> {
        let this = self.get_mut();
        loop {
            match this.script.front().cloned() {
                Some(StreamItem::Item(id)) => {
                    this.script.pop_front();
                    log(Ev::StreamYield { aidx: this.aidx, id });
                    return Poll::Ready(Some(Item { id }));
                }
                Some(StreamItem::Forever(base)) => {
                    this.script[0] = StreamItem::Forever(base + 1);
                    log(Ev::StreamYield { aidx: this.aidx, id: base });
                    return Poll::Ready(Some(Item { id: base }));
                }
                Some(StreamItem::Gate(g)) => {
                    let open = with_h(|h| {
                        let gate = h.gates.entry(g).or_insert(Gate { open: false, wakers: vec![] });
                        if !gate.open {
                            gate.wakers.push(cx.waker().clone());
                        }
                        gate.open
                    });
                    if open {
                        this.script.pop_front();
                    } else {
                        return Poll::Pending;
                    }
                }
                Some(StreamItem::Delay(d)) => {
                    let s = this.delay.get_or_insert_with(|| simrt::sleep_ns(d));
                    match Pin::new(s).poll(cx) {
                        Poll::Ready(()) => {
                            this.delay = None;
                            this.script.pop_front();
                        }
                        Poll::Pending => return Poll::Pending,
                    }
                }
                None => {
                    if this.ends {
                        if !this.ended {
                            this.ended = true;
                            log(Ev::StreamEnd { aidx: this.aidx });
                            return Poll::Ready(None);
                        }
                        // a stream need not tolerate being polled after its end; this one does not
                        log(Ev::StreamPolledAfterEnd { aidx: this.aidx });
                        std::panic::panic_any(InjectedPanic);
                    }
                    return Poll::Pending;
                }
            }
        }
    }
}

pub fn open_gate(g: u32) {
    let wakers = with_h(|h| {
        let gate = h.gates.entry(g).or_insert(Gate { open: false, wakers: vec![] });
        gate.open = true;
        std::mem::take(&mut gate.wakers)
    });
    log(Ev::GateOpened { gate: g });
    for w in wakers {
        w.wake();
    }
}
