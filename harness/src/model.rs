//! Scenario language: a scenario is plain data (serialisable), so that a failing run can be
//! written out, minimised and replayed.
use serde::{Deserialize, Serialize};

pub type Slot = usize;
pub type ActorIdx = u32;
/// actor index used for instances created by `Default::default()` of service type A / B
pub const AIDX_SVC_A: ActorIdx = 1000;
pub const AIDX_SVC_B: ActorIdx = 1001;
/// client id of the setup program
pub const SETUP_CLIENT: u32 = 1000;

#[derive(Clone, Copy, Debug, PartialEq, Eq, Hash, Serialize, Deserialize, PartialOrd, Ord)]
pub enum Tag {
    Plain,
    SvcA,
    SvcB,
}

#[derive(Clone, Copy, Debug, PartialEq, Eq, Hash, Serialize, Deserialize)]
pub enum Restart {
    /// `RestartOnly`: same value gets stopped() then started()
    Default,
    /// `.recreate_from_default()`
    Recreate,
    /// `.non_restartable()`
    NonRestartable,
}

#[derive(Clone, Copy, Debug, PartialEq, Eq, Hash, Serialize, Deserialize)]
pub enum Entry {
    /// `Spawnable::spawn`
    Spawn,
    /// `Spawnable::spawn_owning`
    SpawnOwning,
    /// `DefaultSpawnable::spawn_default`
    SpawnDefault,
    /// `DefaultSpawnable::spawn_owning`
    SpawnDefaultOwning,
    /// `StreamSpawnable::spawn_on_stream`
    SpawnOnStream,
    /// `StreamSpawnable::spawn_owning_on_stream`
    SpawnOwningOnStream,
    /// `build(..)...spawn()`
    BuilderSpawn,
    /// `build(..)...spawn_owning()`
    BuilderSpawnOwning,
    /// `build(..)...register()`
    BuilderRegister,
    /// `build(..).on_stream(..)/.bounded_on_stream(..).spawn()`
    BuilderStreamSpawn,
    /// `build(..).on_stream(..)/.bounded_on_stream(..).spawn_owning()`
    BuilderStreamSpawnOwning,
    /// `build(..).unbounded()/.bounded(n).non_restartable().with_stream(..).spawn()`
    BuilderWithStreamSpawn,
}
impl Entry {
    pub fn owning(self) -> bool {
        matches!(
            self,
            Entry::SpawnOwning
                | Entry::SpawnDefaultOwning
                | Entry::SpawnOwningOnStream
                | Entry::BuilderSpawnOwning
                | Entry::BuilderStreamSpawnOwning
        )
    }
    pub fn on_stream(self) -> bool {
        matches!(
            self,
            Entry::SpawnOnStream
                | Entry::SpawnOwningOnStream
                | Entry::BuilderStreamSpawn
                | Entry::BuilderStreamSpawnOwning
                | Entry::BuilderWithStreamSpawn
        )
    }
    pub fn builder(self) -> bool {
        matches!(
            self,
            Entry::BuilderSpawn
                | Entry::BuilderSpawnOwning
                | Entry::BuilderRegister
                | Entry::BuilderStreamSpawn
                | Entry::BuilderStreamSpawnOwning
                | Entry::BuilderWithStreamSpawn
        )
    }
}

#[derive(Clone, Copy, Debug, PartialEq, Eq, Hash, Serialize, Deserialize)]
pub enum TimerKind {
    Interval,
    IntervalWith,
    DelayedSend,
    DelayedExec,
}

#[derive(Clone, Debug, PartialEq, Eq, Serialize, Deserialize)]
pub struct TimerSpec {
    pub id: u32,
    pub kind: TimerKind,
    pub period: u64,
    /// virtual duration of the tick handler (0 = instantaneous)
    pub handler_sleep: u64,
}

#[derive(Clone, Copy, Debug, PartialEq, Eq, Hash, Serialize, Deserialize)]
pub enum ChildKey {
    /// `add_child` (registered under `()`)
    Unit,
    /// `register_child::<Msg>`
    Msg,
    /// `register_child::<Topic1>`
    Topic1,
}

/// What a handler does (in order) between its entry and exit events.
#[derive(Clone, Debug, PartialEq, Eq, Serialize, Deserialize)]
pub enum Work {
    Sleep(u64),
    Yield(u32),
    CtxStop,
    CtxRestart,
    Timer(TimerSpec),
    /// spawn actor `spec` (index into `Scenario::actors`) and register it as a child
    Child { spec: ActorIdx, under: ChildKey },
    Broadcast { key: ChildKey, id: u64 },
    Subscribe(u8),
    /// `Context::publish` (tokio / async-std only)
    Publish { topic: u8, id: u64 },
    /// call (Ask) actor `target` through a temporarily upgraded weak address; logs the result
    CallPeer { target: ActorIdx, id: u64 },
    /// upgrade the context's own weak address and log the result
    SelfUpgrade,
    Panic,
}

#[derive(Clone, Debug, PartialEq, Eq, Serialize, Deserialize)]
pub enum StreamItem {
    /// yield item `id` now
    Item(u64),
    /// return Pending until released by a `Feed` op (gate number) ...
    Gate(u32),
    /// ... or until the virtual clock reaches now + d
    Delay(u64),
    /// from here on the stream is always ready: it yields items base, base+1, ... for ever
    Forever(u64),
}

#[derive(Clone, Debug, PartialEq, Eq, Serialize, Deserialize)]
pub struct StreamSpec {
    pub script: Vec<StreamItem>,
    /// after the script: `true` = end of stream, `false` = pending forever
    pub ends: bool,
}

#[derive(Clone, Debug, PartialEq, Eq, Serialize, Deserialize)]
pub struct ActorSpec {
    pub tag: Tag,
    /// None = unbounded
    pub mailbox: Option<usize>,
    pub restart: Restart,
    pub timeout: Option<u64>,
    pub fail_on_timeout: bool,
    pub entry: Entry,
    /// done inside `started()` (every incarnation)
    pub on_start: Vec<Work>,
    pub stream: Option<StreamSpec>,
    /// how often `stopped()` yields before it returns (so that things can happen "during stopped")
    #[serde(default)]
    pub stopped_yields: u32,
    /// builder entry points: in which order and on which builder stage timeout / fail_on_timeout
    /// are set (0: base timeout,fail  1: base fail,timeout  2: channel stage timeout,fail
    /// 3: channel stage fail,timeout  4: fail on base, timeout on channel stage  5: the reverse)
    #[serde(default)]
    pub cfg_order: u8,
    /// virtual time `stopped()` takes (so that something that wrongly limits or races it shows)
    #[serde(default)]
    pub stopped_sleep: u64,
    /// a timer registered from inside `stopped()` (it belongs to the incarnation that is ending)
    #[serde(default)]
    pub stopped_timer: Option<TimerSpec>,
}
impl ActorSpec {
    /// mailbox bound the library really applies: only the builder entry points take it
    pub fn effective_mailbox(&self) -> Option<usize> {
        if self.entry.builder() { self.mailbox } else { None }
    }
    /// handler timeout the library really applies: builder entry points, and never on stream loops
    pub fn effective_timeout(&self) -> Option<u64> {
        if self.entry.builder() && !self.entry.on_stream() { self.timeout } else { None }
    }
    pub fn effective_fail_on_timeout(&self) -> bool {
        self.effective_timeout().is_some() && self.fail_on_timeout
    }
}

impl Default for ActorSpec {
    fn default() -> Self {
        ActorSpec {
            tag: Tag::Plain,
            mailbox: None,
            restart: Restart::Default,
            timeout: None,
            fail_on_timeout: false,
            entry: Entry::Spawn,
            on_start: vec![],
            stream: None,
            stopped_yields: 0,
            cfg_order: 0,
            stopped_sleep: 0,
            stopped_timer: None,
        }
    }
}

#[derive(Clone, Copy, Debug, PartialEq, Eq, Hash, Serialize, Deserialize, PartialOrd, Ord)]
pub enum HKind {
    Addr,
    Owning,
    Sender,
    Caller,
    WeakAddr,
    WeakSender,
    WeakCaller,
}
impl HKind {
    pub fn strong(self) -> bool {
        matches!(self, HKind::Addr | HKind::Owning | HKind::Sender | HKind::Caller)
    }
}

#[derive(Clone, Copy, Debug, PartialEq, Eq, Hash, Serialize, Deserialize)]
pub enum PublishPath {
    /// `Broker::publish(msg)`
    Static,
    /// `Broker::from_registry().await` once, then `addr.publish(msg)`
    Addr,
    /// `Broker::try_publish(msg)`
    Try,
}

#[derive(Clone, Debug, PartialEq, Eq, Serialize, Deserialize)]
pub enum Op {
    // ---- actor creation
    /// spawn actor `spec` through its `entry`; the primary handle goes into `slot`
    Spawn { spec: ActorIdx, slot: Slot },
    /// backdoor: obtain an `Addr` of a (child) actor from the harness' weak table
    Acquire { actor: ActorIdx, slot: Slot },

    // ---- submissions (the API is chosen by the kind of handle found in the slot)
    /// fire and forget `Msg`: Addr::send / OwningAddr::send / Sender::send / WeakSender::try_send
    Send { h: Slot, id: u64, work: Vec<Work> },
    /// `let f = sender.send(m); drop(sender); f.await`: the send future outlives the `Sender`
    /// it was made from (it is not a handle: it keeps nothing alive)
    SendThenDrop { h: Slot, id: u64, work: Vec<Work> },
    /// WeakSender::try_force_send
    ForceSend { h: Slot, id: u64, work: Vec<Work> },
    /// `Ask`: Addr::call / OwningAddr::call / Caller::call / WeakCaller::try_call
    Call { h: Slot, id: u64, work: Vec<Work> },
    Ping { h: Slot },

    // ---- life cycle
    Stop { h: Slot },
    /// Addr::halt (consumes the handle)
    Halt { h: Slot },
    /// await the address itself (on a clone when `on_clone`, else in place)
    Await { h: Slot, on_clone: bool },
    Restart { h: Slot },
    TryStop { h: Slot },
    TryHalt { h: Slot },
    QueryStopped { h: Slot },
    QueryRunning { h: Slot },

    // ---- owning address
    Join { h: Slot },
    Consume { h: Slot },
    ConsumeSync { h: Slot },
    Detach { h: Slot, to: Slot },
    /// `let f = owning.join(); drop(owning); f.await` - the way to observe the value after the last drop
    DropThenJoin { h: Slot },
    /// create a join future now and keep it ...
    JoinStart { h: Slot },
    /// ... and await the oldest kept join future
    JoinFinish,
    /// ... or drop the oldest kept join future without ever polling it
    JoinDiscard,
    /// ... or poll the oldest kept join future once and keep it if it is still pending
    JoinPoll,
    /// ... or hand the oldest kept join future to a helper task of its own that awaits it (two
    /// joins can then be pending at the same time in different tasks) ...
    JoinSpawn,
    /// ... and wait for the oldest such helper and take its result
    JoinCollect,
    /// move the oldest kept join future to the back of the line (so that the ops above reach
    /// the others)
    JoinRotate,

    // ---- handle manipulation
    Clone { h: Slot, to: Slot },
    Downgrade { h: Slot, to: Slot },
    Upgrade { h: Slot, to: Slot },
    ToSender { h: Slot, to: Slot },
    ToCaller { h: Slot, to: Slot },
    ToWeakSender { h: Slot, to: Slot },
    ToWeakCaller { h: Slot, to: Slot },
    /// OwningAddr::to_addr / as_addr().clone()
    ToAddr { h: Slot, to: Slot },
    Drop { h: Slot },
    /// hand the handle to another client (it lands in that client's slot `to` once it takes it)
    Give { h: Slot, client: u32, to: Slot },
    /// take whatever was given for slot `to` (no-op when nothing is there yet)
    Take { to: Slot },

    // ---- service registry
    FromRegistry { svc: Tag, to: Slot },
    Setup { svc: Tag },
    /// spawn an unregistered instance of the service type (scenario actor `spec` must carry the tag)
    Register { h: Slot, replaced_to: Slot },
    Replace { h: Slot, replaced_to: Slot },
    Unregister { svc: Tag, to: Slot },
    TryFromRegistry { svc: Tag, to: Slot },
    AlreadyRunning { svc: Tag },

    // ---- broker
    Publish { topic: u8, id: u64, path: PublishPath },
    BrokerPing { topic: u8 },
    /// `Addr<Broker<T>>::unsubscribe(weak_sender of the actor behind slot h)` (h: Addr)
    Unsubscribe { topic: u8, h: Slot },
    /// `Broker::subscribe(weak_sender)` from outside (h: Addr)
    SubscribeExt { topic: u8, h: Slot },

    // ---- streams
    Feed { gate: u32 },

    // ---- client control
    Yield(u32),
    Sleep(u64),
    /// poll the inner operation at most `polls` times, then drop its future
    CancelAfter { polls: u32, op: Box<Op> },
}

#[derive(Clone, Debug, PartialEq, Eq, Serialize, Deserialize)]
pub enum FaultKind {
    /// `started()` returns Err on the n-th call (0-based, counted per actor across incarnations)
    StartErr { nth: u32 },
    /// panic at entry of the k-th callback of the actor (0-based, all callback kinds counted)
    PanicAtCb { k: u32 },
    /// cancel the actor's task instead of its j-th poll (1-based)
    CancelBeforePoll { j: u32 },
    /// cancel the actor's task when the global step counter reaches s
    CancelAtStep { s: u64 },
}

#[derive(Clone, Debug, PartialEq, Eq, Serialize, Deserialize)]
pub struct Fault {
    pub actor: ActorIdx,
    pub kind: FaultKind,
}

#[derive(Clone, Copy, Debug, PartialEq, Eq, Serialize, Deserialize)]
pub enum PolicySpec {
    Uniform,
    Pct { d: u32, horizon: u32 },
    StarveActors,
    StarveClients,
    StarveTimers,
    Bursty,
    LowestId,
    HighestId,
}

#[derive(Clone, Debug, PartialEq, Eq, Serialize, Deserialize)]
pub struct SchedSpec {
    pub seed: u64,
    pub policy: PolicySpec,
    /// 0 = ideal clock; otherwise racing with this per-mille jump probability
    pub racing_per_mille: u32,
    pub spurious_per_mille: u32,
    /// explicit decision list (replay files); overrides policy while it lasts
    #[serde(default)]
    pub decisions: Option<Vec<u32>>,
}

#[derive(Clone, Debug, PartialEq, Eq, Serialize, Deserialize)]
pub struct ClientSpec {
    /// handles the client owns at start: (kind, actor) derived from the actor's primary handle
    pub ops: Vec<Op>,
}

#[derive(Clone, Debug, PartialEq, Eq, Serialize, Deserialize)]
pub struct Scenario {
    pub actors: Vec<ActorSpec>,
    /// default spec used by `Default::default()` of the two service types (and of Plain for recreate)
    pub svc_a: ActorSpec,
    pub svc_b: ActorSpec,
    /// run to completion by a setup task before the clients start; what it `Give`s is waiting
    /// for the clients' `Take`
    #[serde(default)]
    pub setup: Vec<Op>,
    pub clients: Vec<ClientSpec>,
    pub faults: Vec<Fault>,
    pub sched: SchedSpec,
    /// virtual time to keep running after the last client finished before handles are dropped
    pub settle_ns: u64,
    /// drop all client handles in the epilogue (false: leave them alive to the very end)
    pub drop_handles: bool,
    /// which property's profile generated this scenario (informational; oracles that are applied
    /// to several profiles use it to select the rules that are sound there)
    #[serde(default)]
    pub profile: String,
}

impl Scenario {
    pub fn empty(seed: u64) -> Scenario {
        Scenario {
            actors: vec![],
            svc_a: ActorSpec { tag: Tag::SvcA, ..Default::default() },
            svc_b: ActorSpec { tag: Tag::SvcB, ..Default::default() },
            setup: vec![],
            clients: vec![],
            faults: vec![],
            sched: SchedSpec {
                seed,
                policy: PolicySpec::Uniform,
                racing_per_mille: 0,
                spurious_per_mille: 0,
                decisions: None,
            },
            settle_ns: 0,
            drop_handles: true,
            profile: String::new(),
        }
    }
    pub fn spec_of(&self, aidx: ActorIdx) -> &ActorSpec {
        match aidx {
            AIDX_SVC_A => &self.svc_a,
            AIDX_SVC_B => &self.svc_b,
            i => &self.actors[i as usize],
        }
    }
}
