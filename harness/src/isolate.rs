//! Per-run isolation. hannibal has process-global state: the service registry (emptied by every
//! run's prologue and epilogue), the `ContextID` counter (restarted at every run through the one
//! cfg-guarded hook in /repo; its values key the broker's subscriber `HashMap`) and std's
//! per-thread `RandomState` keys. Every simulated run therefore executes on a **fresh OS thread**:
//! with the getrandom shim the driver preloads (tools/detrand.c) every fresh thread starts from
//! the same keys, so the iteration order of every `HashMap` in the library is a function of the
//! run alone - not of the process, the batch or the runs before it.
//!
//! With `HSIM_FORK=1` the run executes in a forked child of a parent that never runs a scenario
//! (belt and braces against process-global state nobody knows about; about 1 ms per run in this
//! VM, so it is not the default).
use serde::{Serialize, de::DeserializeOwned};
use std::io::{Read, Write};
use std::os::fd::FromRawFd;

pub fn isolated<T: Serialize + DeserializeOwned + Send>(f: impl FnOnce() -> T + Send) -> Option<T> {
    if std::env::var_os("HSIM_FORK").is_some() {
        return forked(f);
    }
    std::thread::scope(|s| {
        std::thread::Builder::new()
            .stack_size(2 << 20)
            .spawn_scoped(s, f)
            .expect("cannot spawn run thread")
            .join()
            .ok()
    })
}

/// Run `f` in a forked child and return its (serialised) result. `None` = the child died.
fn forked<T: Serialize + DeserializeOwned>(f: impl FnOnce() -> T) -> Option<T> {
    let mut fds = [0i32; 2];
    // SAFETY: plain POSIX calls on a single-threaded process; fds are owned below.
    unsafe {
        if libc::pipe(fds.as_mut_ptr()) != 0 {
            panic!("pipe failed");
        }
        let _ = std::io::stdout().flush();
        let pid = libc::fork();
        if pid < 0 {
            panic!("fork failed");
        }
        if pid == 0 {
            libc::close(fds[0]);
            let res = std::panic::catch_unwind(std::panic::AssertUnwindSafe(f));
            let mut w = std::fs::File::from_raw_fd(fds[1]);
            let code = match res {
                Ok(v) => {
                    let bytes = serde_json::to_vec(&v).expect("serialise run result");
                    let _ = w.write_all(&bytes);
                    0
                }
                Err(_) => 3,
            };
            let _ = w.flush();
            drop(w);
            let _ = std::io::stdout().flush();
            libc::_exit(code);
        }
        libc::close(fds[1]);
        let mut r = std::fs::File::from_raw_fd(fds[0]);
        let mut buf = Vec::new();
        let _ = r.read_to_end(&mut buf);
        let mut status = 0;
        libc::waitpid(pid, &mut status, 0);
        if buf.is_empty() {
            return None;
        }
        serde_json::from_slice(&buf).ok()
    }
}
