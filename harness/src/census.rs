//! Strong-handle census: replays the clients' handle operations from the log and computes, for
//! one scenario actor, how many strong handles exist at every point of the history.
use crate::analysis::*;
use crate::log::*;
use crate::model::*;
use std::collections::BTreeMap;

#[derive(Clone, Debug, Default)]
pub struct Census {
    /// (seq, strong handles that certainly exist from this seq on)
    pub points: Vec<(u64, i64)>,
    /// intervals [from, to] during which a temporary strong handle *may* exist (library or
    /// operation internal upgrade of a weak handle)
    pub maybe: Vec<(u64, u64)>,
    /// the whole run may see library temporaries (bounded mailbox + waiting timers, broker fan-out)
    pub lib_temporaries_possible: bool,
}

impl Census {
    pub fn certain_at(&self, seq: u64) -> i64 {
        let mut c = 0;
        for (s, n) in &self.points {
            if *s <= seq {
                c = *n;
            } else {
                break;
            }
        }
        c
    }
    pub fn maybe_at(&self, seq: u64) -> bool {
        self.maybe.iter().any(|(a, b)| *a <= seq && seq <= *b)
    }
    /// the moment the certain count reached 0 for good (never positive afterwards)
    pub fn t0(&self) -> Option<u64> {
        let mut t = None;
        let mut ever = false;
        for (s, n) in &self.points {
            if *n > 0 {
                ever = true;
                t = None;
            } else if t.is_none() && ever {
                t = Some(*s);
            }
        }
        t
    }
    pub fn max(&self) -> i64 {
        self.points.iter().map(|p| p.1).max().unwrap_or(0)
    }
}

fn strong(k: HKind) -> bool {
    k.strong()
}

pub fn census(v: &View, aidx: ActorIdx) -> Census {
    #[derive(Clone, Copy, Debug)]
    struct Hd {
        k: HKind,
        a: Option<ActorIdx>,
    }
    let mut slots: BTreeMap<(u32, Slot), Hd> = BTreeMap::new();
    let mut mail: BTreeMap<(u32, Slot), Hd> = BTreeMap::new();
    let mut retained: Vec<Hd> = vec![];
    let mut inflight: BTreeMap<(u32, u32), Hd> = BTreeMap::new();
    let mut registry = 0i64;
    let mut cen = Census::default();
    let spec = v.sc.spec_of(aidx);
    let has_waiting_timer = |w: &Vec<Work>| w.iter().any(|x| matches!(x, Work::Timer(t) if matches!(t.kind, TimerKind::IntervalWith | TimerKind::DelayedSend)));
    // (the broker upgrades its weak entries only while it delivers a publication: a subscription
    // in a run in which nothing is ever published creates no temporaries)
    let publishes = |w: &Vec<Work>| w.iter().any(|x| matches!(x, Work::Publish { .. }));
    let any_publication = v.ops.iter().any(|o| match o.inner {
        Op::Publish { .. } => !o.skipped(),
        Op::Send { work, .. } | Op::Call { work, .. } | Op::ForceSend { work, .. } => publishes(work),
        _ => false,
    }) || v.sc.actors.iter().any(|a| publishes(&a.on_start));
    let subscribes = |w: &Vec<Work>| any_publication && w.iter().any(|x| matches!(x, Work::Subscribe(_)));
    if (spec.effective_mailbox().is_some() && has_waiting_timer(&spec.on_start)) || subscribes(&spec.on_start) {
        cen.lib_temporaries_possible = true;
    }
    for o in &v.ops {
        let works: Option<&Vec<Work>> = match o.inner {
            Op::Send { work, .. } | Op::Call { work, .. } | Op::ForceSend { work, .. } => Some(work),
            _ => None,
        };
        if let Some(w) = works {
            if o.target == Some(aidx) && ((spec.effective_mailbox().is_some() && has_waiting_timer(w)) || subscribes(w)) {
                cen.lib_temporaries_possible = true;
            }
        }
        if any_publication && matches!(o.inner, Op::SubscribeExt { .. }) && o.target == Some(aidx) {
            cen.lib_temporaries_possible = true;
        }
    }

    let count = |slots: &BTreeMap<(u32, Slot), Hd>, mail: &BTreeMap<(u32, Slot), Hd>, retained: &Vec<Hd>, inflight: &BTreeMap<(u32, u32), Hd>, registry: i64| -> i64 {
        let f = |h: &Hd| h.a == Some(aidx) && strong(h.k);
        slots.values().filter(|h| f(h)).count() as i64
            + mail.values().filter(|h| f(h)).count() as i64
            + retained.iter().filter(|h| f(h)).count() as i64
            + inflight.values().filter(|h| f(h)).count() as i64
            + registry
    };

    // index ops by begin / end seq
    let mut by_begin: BTreeMap<u64, usize> = BTreeMap::new();
    let mut by_end: BTreeMap<u64, usize> = BTreeMap::new();
    for (i, o) in v.ops.iter().enumerate() {
        by_begin.insert(o.begin, i);
        if let Some(e) = o.end {
            by_end.insert(e, i);
        }
    }
    let mut last = -1i64;
    for r in &v.out.log {
        let seq = r.st.seq;
        match &r.ev {
            Ev::OpBegin { .. } => {
                let o = &v.ops[by_begin[&seq]];
                let key = |s: &Slot| (o.client, *s);
                match o.inner {
                    // the handle moves into the operation's future and dies with it
                    Op::Halt { h } | Op::Consume { h } | Op::Await { h, on_clone: false } => {
                        if let Some(hd) = slots.get(&key(h)).copied() {
                            let applies = match o.inner {
                                Op::Halt { .. } => hd.k == HKind::Addr,
                                Op::Consume { .. } => hd.k == HKind::Owning,
                                _ => hd.k == HKind::Addr,
                            };
                            if applies {
                                slots.remove(&key(h));
                                inflight.insert((o.client, o.idx), hd);
                            }
                        }
                    }
                    Op::ConsumeSync { h } | Op::DropThenJoin { h } => {
                        if slots.get(&key(h)).is_some_and(|hd| hd.k == HKind::Owning) {
                            slots.remove(&key(h));
                        }
                    }
                    // the sender is dropped as soon as the send future exists
                    Op::SendThenDrop { h, .. } => {
                        if slots.get(&key(h)).is_some_and(|hd| hd.k == HKind::Sender) {
                            slots.remove(&key(h));
                        }
                    }
                    // a clone lives inside the await
                    Op::Await { h, on_clone: true } => {
                        if let Some(hd) = slots.get(&key(h)).copied() {
                            if matches!(hd.k, HKind::Addr | HKind::Owning) {
                                inflight.insert((o.client, o.idx), Hd { k: HKind::Addr, a: hd.a });
                            }
                        }
                    }
                    // operations on weak handles upgrade internally for their duration
                    Op::Send { h, .. } | Op::Call { h, .. } | Op::TryHalt { h } | Op::TryStop { h } | Op::ForceSend { h, .. } => {
                        if let Some(hd) = slots.get(&key(h)).copied() {
                            if hd.a == Some(aidx) && !strong(hd.k) {
                                cen.maybe.push((seq, o.end.unwrap_or(u64::MAX)));
                            }
                        }
                    }
                    _ => {}
                }
            }
            Ev::OpEnd { res, .. } => {
                let o = &v.ops[by_end[&seq]];
                inflight.remove(&(o.client, o.idx));
                let key = |s: &Slot| (o.client, *s);
                let src = |slots: &BTreeMap<(u32, Slot), Hd>, s: &Slot| slots.get(&(o.client, *s)).copied();
                if matches!(res, Res::Skipped | Res::Abandoned) {
                    // nothing happened (Abandoned conversions do not exist; pending submissions hold nothing)
                } else {
                    match o.inner {
                        Op::Spawn { spec, slot } => {
                            if let Res::Spawned { .. } = res {
                                let k = if v.sc.spec_of(*spec).entry.owning() && v.sc.spec_of(*spec).tag == Tag::Plain { HKind::Owning } else { HKind::Addr };
                                slots.insert(key(slot), Hd { k, a: Some(*spec) });
                                if v.sc.spec_of(*spec).entry == Entry::BuilderRegister && *spec == aidx {
                                    registry = 1;
                                }
                            } else {
                                slots.remove(&key(slot));
                            }
                        }
                        Op::Acquire { actor, slot } => {
                            if matches!(res, Res::Handle(true)) {
                                slots.insert(key(slot), Hd { k: HKind::Addr, a: Some(*actor) });
                            }
                        }
                        Op::Clone { h, to } => {
                            if let Some(hd) = src(&slots, h) {
                                let k = if hd.k == HKind::Owning { HKind::Addr } else { hd.k };
                                slots.insert(key(to), Hd { k, a: hd.a });
                            }
                        }
                        Op::Downgrade { h, to } => {
                            if let Some(hd) = src(&slots, h) {
                                let k = match hd.k {
                                    HKind::Addr | HKind::Owning => HKind::WeakAddr,
                                    HKind::Sender => HKind::WeakSender,
                                    HKind::Caller => HKind::WeakCaller,
                                    k => k,
                                };
                                slots.insert(key(to), Hd { k, a: hd.a });
                            }
                        }
                        Op::Upgrade { h, to } => {
                            if let (Some(hd), Res::Handle(true)) = (src(&slots, h), res) {
                                let k = match hd.k {
                                    HKind::WeakAddr => HKind::Addr,
                                    HKind::WeakSender => HKind::Sender,
                                    HKind::WeakCaller => HKind::Caller,
                                    k => k,
                                };
                                slots.insert(key(to), Hd { k, a: hd.a });
                            }
                        }
                        Op::ToSender { h, to } | Op::ToCaller { h, to } | Op::ToWeakSender { h, to } | Op::ToWeakCaller { h, to } | Op::ToAddr { h, to } => {
                            if let Some(hd) = src(&slots, h) {
                                let k = match o.inner {
                                    Op::ToSender { .. } => HKind::Sender,
                                    Op::ToCaller { .. } => HKind::Caller,
                                    Op::ToWeakSender { .. } => HKind::WeakSender,
                                    Op::ToWeakCaller { .. } => HKind::WeakCaller,
                                    _ => HKind::Addr,
                                };
                                slots.insert(key(to), Hd { k, a: hd.a });
                            }
                        }
                        Op::Detach { h, to } => {
                            if let Some(hd) = slots.remove(&key(h)) {
                                slots.insert(key(to), Hd { k: HKind::Addr, a: hd.a });
                            }
                        }
                        Op::Drop { h } => {
                            slots.remove(&key(h));
                        }
                        Op::Give { h, client, to } => {
                            if let Some(hd) = slots.remove(&key(h)) {
                                mail.insert((*client, *to), hd);
                            }
                        }
                        Op::Take { to } => {
                            if let (Some(hd), Res::Handle(true)) = (mail.remove(&key(to)), res) {
                                slots.insert(key(to), hd);
                            }
                        }
                        Op::Register { h, replaced_to } => {
                            let me = src(&slots, h);
                            match res {
                                Res::Registered { replaced } => {
                                    if me.is_some_and(|m| m.a == Some(aidx)) {
                                        registry = 1;
                                    }
                                    if *replaced {
                                        slots.insert(key(replaced_to), Hd { k: HKind::Addr, a: None });
                                    }
                                }
                                _ => {
                                    // register(self) consumed and dropped the handle
                                    slots.remove(&key(h));
                                }
                            }
                        }
                        Op::Unregister { .. } | Op::Replace { .. } | Op::FromRegistry { .. } | Op::TryFromRegistry { .. } => {
                            // registry-derived handles have unknown identity: the census is only
                            // meaningful for actors that never pass through these operations
                        }
                        _ => {}
                    }
                }
            }
            Ev::ClientDone { client } => {
                let keys: Vec<(u32, Slot)> = slots.keys().filter(|k| k.0 == *client).copied().collect();
                for k in keys {
                    if let Some(h) = slots.remove(&k) {
                        retained.push(h);
                    }
                }
            }
            Ev::Phase(Phase::HandlesDropped) => {
                if v.sc.drop_handles {
                    retained.clear();
                    mail.clear();
                }
                // the epilogue empties the registry right afterwards
                registry = 0;
            }
            _ => continue,
        }
        let c = count(&slots, &mail, &retained, &inflight, registry);
        if c != last {
            cen.points.push((seq, c));
            last = c;
        }
    }
    cen
}
