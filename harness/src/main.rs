mod actors;
mod interp;
mod log;
mod model;

use model::*;

fn main() {
    actors::SPAWN_CHILD.set(interp::spawn_plain_addr).ok();
    futures_util::__verif_set_random_hook(simrt::select_random);
    let prev = std::panic::take_hook();
    std::panic::set_hook(Box::new(move |info| {
        if info.payload().is::<actors::InjectedPanic>() {
            return;
        }
        prev(info)
    }));

    let mut sc = Scenario::empty(1);
    sc.actors.push(ActorSpec::default());
    sc.clients.push(ClientSpec {
        ops: vec![
            Op::Spawn { spec: 0, slot: 0 },
            Op::Send { h: 0, id: 1, work: vec![] },
            Op::Call { h: 0, id: 2, work: vec![Work::Yield(2)] },
            Op::Stop { h: 0 },
            Op::Await { h: 0, on_clone: true },
        ],
    });
    let out = interp::run_scenario(&sc);
    for r in &out.log {
        println!("{:?}", r);
    }
    println!("{:?} hash={:x}", out.outcome, out.hash);
}
