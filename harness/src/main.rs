//! hsim — scenario generator, interpreter, oracles, minimiser and worker CLI.
//!
//!   hsim worker   <prop> <tier> <seed> <start> <count> <out.json>
//!   hsim minimise <prop> <tier> <seed> <index> <rule> <out.json>
//!   hsim replay   <file.json>
//!   hsim show     <prop> <tier> <seed> <index>
//!   hsim hashes   <prop> <tier> <seed> <start> <count>
//!   hsim list
#![allow(dead_code)] // the analysis layer offers more accessors than every oracle uses
mod actors;
mod analysis;
mod calib;
mod sgen;
mod census;
mod interp;
mod isolate;
mod log;
mod minimise;
mod model;
mod props;

use analysis::View;
use model::*;
use serde::{Deserialize, Serialize};
use std::collections::{BTreeMap, BTreeSet};

struct StderrLogger;
impl ::log::Log for StderrLogger {
    fn enabled(&self, _: &::log::Metadata) -> bool {
        true
    }
    fn log(&self, r: &::log::Record) {
        eprintln!("      [lib {}] {}", r.target(), r.args());
    }
    fn flush(&self) {}
}

fn init() {
    if std::env::var_os("HSIM_TRACE").is_some() {
        static L: StderrLogger = StderrLogger;
        let _ = ::log::set_logger(&L);
        ::log::set_max_level(::log::LevelFilter::Trace);
    }
    actors::SPAWN_CHILD.set(interp::spawn_plain_addr).ok();
    // create the process-global registry here, so that no run pays for (and shifts its RandomState
    // sequence by) the lazy initialisation
    {
        use hannibal::Service;
        let _ = actors::SA::try_from_registry();
    }
    futures_util::__verif_set_random_hook(simrt::select_random);
    async_lock::__verif_set_now_hook(simrt::now_if_active);
    let prev = std::panic::take_hook();
    std::panic::set_hook(Box::new(move |info| {
        if info.payload().is::<actors::InjectedPanic>() {
            return;
        }
        if let Some(s) = info.payload().downcast_ref::<&str>() {
            // the join-side panic of the async-std / smol stubs when a task failed
            if *s == "task has failed" {
                return;
            }
        }
        prev(info)
    }));
}

fn prop_salt(id: &str) -> u64 {
    let mut h = 0xcbf2_9ce4_8422_2325u64;
    for b in id.bytes() {
        h ^= b as u64;
        h = h.wrapping_mul(0x0000_0100_0000_01B3);
    }
    h
}

pub fn run_seed(base: u64, prop: &str, index: u64) -> u64 {
    simrt::mix(simrt::mix(base, prop_salt(prop)), index)
}

fn make_scenario(p: &props::PropDef, tier: &str, base: u64, index: u64) -> Scenario {
    make_scenario_ex(p, tier, base, index).0
}

/// returns the scenario and, if it comes from the property's own profile, its index within that
/// profile (the key under which outcome records are compared across runtimes and schedules)
fn make_scenario_ex(p: &props::PropDef, tier: &str, base: u64, index: u64) -> (Scenario, Option<u64>) {
    let n = p.extra_profiles.len() as u64;
    let (mut sc, own) = if tier == "thorough" && n > 0 {
        // half of the runs come from this property's own profile, the other half is spread over
        // the profiles of the listed other properties (judged by this property's oracle)
        let slot = index % (2 * n);
        let round = index / (2 * n);
        if slot >= n {
            let gp = props::get(p.extra_profiles[(slot - n) as usize]).expect("unknown extra profile");
            let mut g = sgen::G::new(run_seed(base, p.id, simrt::mix(round / gp.block.max(1), slot)), true);
            let mut sc = (gp.generate)(&mut g, round);
            if sc.profile.is_empty() {
                sc.profile = gp.id.to_string();
            }
            // a generator may hand a share of its runs to another profile's generator (and says so
            // in the tag): this oracle judges those only if it is sound on that profile as well
            if sc.profile != p.id && !p.extra_profiles.contains(&sc.profile.as_str()) {
                let mut g = sgen::G::new(run_seed(base, p.id, simrt::mix(round, slot) / p.block.max(1)), true);
                sc = (p.generate)(&mut g, round);
            }
            (sc, None)
        } else {
            let own = round * n + slot;
            let mut g = sgen::G::new(run_seed(base, p.id, own / p.block.max(1)), true);
            ((p.generate)(&mut g, own), Some(own))
        }
    } else {
        let mut g = sgen::G::new(run_seed(base, p.id, index / p.block.max(1)), tier == "thorough");
        ((p.generate)(&mut g, index), Some(index))
    };
    if sc.profile.is_empty() {
        sc.profile = p.id.to_string();
    }
    if let Some(f) = p.adapt {
        f(&mut sc);
    }
    (sc, own)
}

#[derive(Serialize, Deserialize)]
struct ViolationOut {
    index: u64,
    run_seed: u64,
    property: String,
    rule: String,
    signature: String,
    detail: String,
}

#[derive(Serialize, Deserialize)]
struct ReplayFile {
    property: String,
    tier: String,
    base_seed: u64,
    index: u64,
    rule: String,
    signature: String,
    detail: String,
    minimised: bool,
    minimiser_runs: u64,
    scenario: Scenario,
    /// decision list of the failing run (task chosen per step; 4294967295 = clock jump)
    decisions: Vec<u32>,
    trace_hash: String,
}

fn fault_counts(v: &View, acc: &mut BTreeMap<String, u64>) {
    let mut add = |k: &str, n: u64| {
        if n > 0 {
            *acc.entry(k.to_string()).or_insert(0) += n;
        }
    };
    let st = &v.out.stats;
    add("task_cancel_injected", st.cancels_injected);
    add("task_cancel_by_handle_drop", st.cancels_by_drop);
    add("panic_caught", st.panics_caught);
    add("racing_clock_jump", st.racing_clock_jumps);
    add("timer_fired_while_tasks_runnable", st.timers_fired_while_runnable);
    add("spurious_poll", st.spurious_polls);
    add("select_tie_break_draw", st.select_draws);
    for r in &v.out.log {
        match &r.ev {
            log::Ev::FaultFired { what: 0, .. } => add("started_returns_err", 1),
            log::Ev::FaultFired { what: 1, .. } => add("panic_in_callback", 1),
            log::Ev::FaultFired { what: 2, .. } => add("panic_in_handler_work", 1),
            log::Ev::OpEnd { res: log::Res::Abandoned, .. } => add("client_dropped_pending_op", 1),
            _ => {}
        }
    }
    for c in &v.cbs {
        if c.exit.is_none() && c.cb.is_handler() && v.sc.spec_of(c.aidx).timeout.is_some() {
            add("handler_abandoned_by_timeout_or_death", 1);
        }
    }
}

#[derive(Serialize, Deserialize, Default)]
struct RunSummary {
    nontrivial: bool,
    sig: u64,
    hash: u64,
    violations: Vec<(String, String, String, String)>, // property, rule, signature, detail
    probes: BTreeMap<String, u64>,
    faults: BTreeMap<String, u64>,
    policy: String,
    racing: bool,
    steps: u64,
    vtime: u64,
    events: u64,
    cap: bool,
    hung: bool,
    sample: Option<serde_json::Value>,
    outcome: Option<String>,
    outcome_key: u64,
}

/// everything that belongs to one run: generate, simulate, judge, summarise
fn per_run(p: &props::PropDef, tier: &str, base: u64, index: u64, want_sample: bool) -> RunSummary {
    let (sc, own) = make_scenario_ex(p, tier, base, index);
    let out = interp::run_scenario(&sc);
    let v = View::new(&sc, &out);
    analysis::coverage_probes(&v);
    let vs = (p.check)(&v);
    let nt = (p.nontrivial)(&v);
    let mut r = RunSummary { nontrivial: nt, hash: out.hash, ..Default::default() };
    if let (Some(f), Some(own)) = (p.outcome, own) {
        r.outcome = Some(format!("{:016x}", prop_salt(&f(&v))));
        r.outcome_key = own;
    }
    for (k, n) in out.probes.iter().chain(log::take_probes().iter()) {
        *r.probes.entry(k.to_string()).or_insert(0) += n;
    }
    fault_counts(&v, &mut r.faults);
    r.policy = format!("{:?}", sc.sched.policy).split([' ', '{']).next().unwrap().to_string();
    r.racing = sc.sched.racing_per_mille > 0;
    r.steps = out.outcome.steps;
    r.vtime = out.outcome.vtime_end;
    r.events = out.log.len() as u64;
    r.cap = out.outcome.cap_phase != 0;
    r.hung = out.outcome.hung;
    if nt {
        r.sig = analysis::event_order_signature(&v);
        if want_sample {
            r.sample = Some(serde_json::json!({
                "index": index,
                "run_seed": run_seed(base, p.id, index),
                "scenario": sc,
                "decisions": out.decisions,
                "steps": out.outcome.steps,
                "events": out.log.len(),
            }));
        }
    }
    for x in vs {
        r.violations.push((x.property, x.rule, x.signature, x.detail));
    }
    r
}

fn worker(args: &[String]) -> i32 {
    // "ORACLE@GENERATOR": judge the scenarios of another property's profile with this oracle
    let (oracle_id, gen_id) = match args[0].split_once('@') {
        Some((o, g)) => (o.to_string(), g.to_string()),
        None => (args[0].clone(), args[0].clone()),
    };
    let mut p = props::get(&gen_id).expect("unknown property");
    if oracle_id != gen_id {
        let o = props::get(&oracle_id).expect("unknown property");
        p.check = o.check;
        p.nontrivial = o.nontrivial;
        p.outcome = None;
    }
    let tier = args[1].as_str();
    let base: u64 = args[2].parse().unwrap();
    let start: u64 = args[3].parse().unwrap();
    let count: u64 = args[4].parse().unwrap();
    let outp = &args[5];
    let t0 = std::time::Instant::now();
    let mut sigs: BTreeSet<u64> = BTreeSet::new();
    let mut hashes: BTreeSet<u64> = BTreeSet::new();
    let mut violations: Vec<ViolationOut> = vec![];
    let mut per_sig: BTreeMap<String, u32> = BTreeMap::new();
    let mut faults: BTreeMap<String, u64> = BTreeMap::new();
    let mut probes: BTreeMap<String, u64> = BTreeMap::new();
    let mut policies: BTreeMap<String, u64> = BTreeMap::new();
    let mut samples: Vec<serde_json::Value> = vec![];
    let (mut steps, mut vtime, mut nontrivial, mut cap_hits, mut hung, mut events) = (0u64, 0u64, 0u64, 0u64, 0u64, 0u64);
    let mut racing_runs = 0u64;
    let mut outcomes: Vec<(u64, String)> = vec![];
    for index in start..start + count {
        let want_sample = samples.len() < 2;
        let Some(r) = isolate::isolated(|| per_run(&p, tier, base, index, want_sample)) else {
            eprintln!("hsim: run {index} of {} (seed {base}) died inside the simulator process", p.id);
            return 2;
        };
        for (k, n) in r.probes {
            *probes.entry(k).or_insert(0) += n;
        }
        for (k, n) in r.faults {
            *faults.entry(k).or_insert(0) += n;
        }
        *policies.entry(r.policy).or_insert(0) += 1;
        racing_runs += r.racing as u64;
        steps += r.steps;
        vtime += r.vtime;
        events += r.events;
        cap_hits += r.cap as u64;
        hung += r.hung as u64;
        hashes.insert(r.hash);
        if let Some(o) = r.outcome {
            outcomes.push((r.outcome_key, o));
        }
        if r.nontrivial {
            nontrivial += 1;
            if sigs.insert(r.sig) {
                if let Some(s) = r.sample {
                    if samples.len() < 2 {
                        samples.push(s);
                    }
                }
            }
        }
        for (property, rule, signature, detail) in r.violations {
            let n = per_sig.entry(signature.clone()).or_insert(0);
            *n += 1;
            if *n <= 3 {
                violations.push(ViolationOut { index, run_seed: run_seed(base, p.id, index), property, rule, signature, detail });
            }
        }
    }
    let res = serde_json::json!({
        "prop": p.id, "tier": tier, "base_seed": base, "start": start, "count": count,
        "evaluations": count,
        "nontrivial_runs": nontrivial,
        "nontrivial_sigs": sigs.iter().collect::<Vec<_>>(),
        "trace_hashes": hashes.iter().collect::<Vec<_>>(),
        "violations": violations,
        "violation_counts": per_sig,
        "faults": faults, "probes": probes, "policies": policies, "racing_clock_runs": racing_runs,
        "steps": steps, "vtime_ns": vtime, "events": events, "cap_hits": cap_hits, "hung_runs": hung,
        "samples": samples,
        "outcomes": outcomes,
        "wall_s": t0.elapsed().as_secs_f64(),
    });
    std::fs::write(outp, serde_json::to_vec(&res).unwrap()).unwrap();
    0
}

/// what the drivers need to know about one run of one scenario (computed in an isolated child)
#[derive(Serialize, Deserialize)]
struct Judged {
    violations: Vec<(String, String, String, String)>,
    decisions: Vec<u32>,
    hash: u64,
    diverged: bool,
    log: Vec<String>,
    outcome: String,
    alive: String,
    record: String,
}

fn judge(p: &props::PropDef, sc: &Scenario, with_log: bool) -> Judged {
    let p_id = p.id.to_string();
    let check = p.check;
    let outcome_fn = p.outcome;
    let sc2 = sc.clone();
    isolate::isolated(move || {
        let out = interp::run_scenario(&sc2);
        let v = View::new(&sc2, &out);
        let vs = check(&v);
        let _ = log::take_probes();
        Judged {
            violations: vs.into_iter().map(|x| (x.property, x.rule, x.signature, x.detail)).collect(),
            decisions: out.decisions.clone(),
            hash: out.hash,
            diverged: out.outcome.replay_diverged,
            log: if with_log {
                out.log.iter().map(|r| format!("{:>5} step={:<5} t={:<8} task={:<3} {:?}", r.st.seq, r.st.step, r.st.vtime, r.st.task as i32, r.ev)).collect()
            } else {
                vec![]
            },
            outcome: format!("{:?}", out.outcome),
            alive: format!("{:?}", out.alive_at_end),
            record: outcome_fn.map(|f| f(&v)).unwrap_or_default(),
        }
    })
    .unwrap_or_else(|| panic!("hsim: a run of {p_id} died inside the simulator process"))
}

fn has_rule(j: &Judged, rule: &str) -> bool {
    j.violations.iter().any(|v| v.1 == rule)
}

fn minimise_cmd(args: &[String]) -> i32 {
    let p = props::get(&args[0]).expect("unknown property");
    let tier = args[1].as_str();
    let base: u64 = args[2].parse().unwrap();
    let index: u64 = args[3].parse().unwrap();
    let rule = args[4].clone();
    let outp = &args[5];
    // (the generator of some profiles runs a counting simulation: keep even that out of this process)
    let (pid, t2) = (p.id.to_string(), tier.to_string());
    let sc: Scenario = isolate::isolated(move || make_scenario(&props::get(&pid).unwrap(), &t2, base, index)).expect("scenario generation died");
    if !has_rule(&judge(&p, &sc, false), &rule) {
        eprintln!("minimise: run {index} does not reproduce rule {rule}");
        return 2;
    }
    let mut m = minimise::Minimiser { prop: &p, rule: rule.clone(), runs: 0, budget: 1500 };
    let mut small = m.minimise(&sc);
    // make the schedule explicit: replay the recorded decision list instead of the seeded policy,
    // then shorten it (the suffix falls back to "lowest task id") while the same rule still fails
    {
        let j0 = judge(&p, &small, false);
        if has_rule(&j0, &rule) {
            let full = j0.decisions.clone();
            let mut cand = small.clone();
            cand.sched.decisions = Some(full.clone());
            let jx = judge(&p, &cand, false);
            if has_rule(&jx, &rule) && !jx.diverged {
                let mut best = full.clone();
                let mut len = best.len();
                let mut step = (len / 2).max(1);
                let mut tries = 0;
                while step >= 1 && tries < 60 {
                    tries += 1;
                    if len < step {
                        step /= 2;
                        continue;
                    }
                    let mut c2 = small.clone();
                    c2.sched.decisions = Some(best[..len - step].to_vec());
                    m.runs += 1;
                    if has_rule(&judge(&p, &c2, false), &rule) {
                        len -= step;
                    } else {
                        step /= 2;
                    }
                    if step == 0 {
                        break;
                    }
                }
                best.truncate(len);
                cand.sched.decisions = Some(best);
                small = cand;
            }
        }
    }
    // two confirmation runs; the driver replays once more in a fresh process
    let j1 = judge(&p, &small, false);
    let j2 = judge(&p, &small, false);
    let Some(v1) = j1.violations.iter().find(|v| v.1 == rule) else {
        eprintln!("minimise: minimised scenario does not reproduce");
        return 2;
    };
    if j1.hash != j2.hash || !has_rule(&j2, &rule) {
        eprintln!("minimise: minimised scenario is not deterministic");
        return 2;
    }
    let rf = ReplayFile {
        property: p.id.to_string(),
        tier: tier.to_string(),
        base_seed: base,
        index,
        rule,
        signature: v1.2.clone(),
        detail: v1.3.clone(),
        minimised: true,
        minimiser_runs: m.runs,
        scenario: small,
        decisions: j1.decisions.clone(),
        trace_hash: format!("{:016x}", j1.hash),
    };
    std::fs::write(outp, serde_json::to_vec_pretty(&rf).unwrap()).unwrap();
    0
}

fn replay_cmd(args: &[String]) -> i32 {
    let data = std::fs::read(&args[0]).expect("cannot read replay file");
    let rf: ReplayFile = serde_json::from_slice(&data).expect("bad replay file");
    let p = props::get(&rf.property).expect("unknown property");
    let verbose = args.iter().any(|a| a == "-v");
    let j = judge(&p, &rf.scenario, verbose);
    for l in &j.log {
        println!("{l}");
    }
    let same_trace = format!("{:016x}", j.hash) == rf.trace_hash && j.decisions == rf.decisions;
    println!("replay: property={} rule={} trace_identical={}", rf.property, rf.rule, same_trace);
    let mut hit = false;
    for v in &j.violations {
        println!("  violated: {} :: {}", v.2, v.3);
        if v.1 == rf.rule {
            hit = true;
        }
    }
    if hit {
        println!("VIOLATION property={} replay={}", rf.property, args[0]);
        1
    } else {
        println!("replay: the recorded violation did not occur on this tree");
        0
    }
}

fn show_cmd(args: &[String]) -> i32 {
    let p = props::get(&args[0]).expect("unknown property");
    let tier = args[1].to_string();
    let base: u64 = args[2].parse().unwrap();
    let index: u64 = args[3].parse().unwrap();
    let (pid, t2) = (p.id.to_string(), tier.clone());
    let sc: Scenario = isolate::isolated(move || make_scenario(&props::get(&pid).unwrap(), &t2, base, index)).expect("scenario generation died");
    println!("{}", serde_json::to_string_pretty(&sc).unwrap());
    let j = judge(&p, &sc, true);
    for l in &j.log {
        println!("{l}");
    }
    println!("{}", j.outcome);
    println!("alive at end: {}", j.alive);
    for v in &j.violations {
        println!("VIOLATED {} :: {}", v.2, v.3);
    }
    0
}

/// print the scenario of a run as JSON and its canonical outcome record
fn outcome_cmd(args: &[String]) -> i32 {
    let p = props::get(&args[0]).expect("unknown property");
    let sc: Scenario = if args.len() >= 4 {
        let (pid, t2, base, index) = (p.id.to_string(), args[1].clone(), args[2].parse::<u64>().unwrap(), args[3].parse::<u64>().unwrap());
        // `--own`: the index counts within the property's own profile (the key of outcome records),
        // which in the thorough tier is not the run index
        let own = args.iter().any(|a| a == "--own");
        isolate::isolated(move || {
            let p = props::get(&pid).unwrap();
            if own {
                let mut g = sgen::G::new(run_seed(base, p.id, index / p.block.max(1)), t2 == "thorough");
                let mut sc = (p.generate)(&mut g, index);
                sc.profile = p.id.to_string();
                if let Some(f) = p.adapt {
                    f(&mut sc);
                }
                sc
            } else {
                make_scenario(&p, &t2, base, index)
            }
        })
        .expect("scenario generation died")
    } else {
        serde_json::from_slice(&std::fs::read(&args[1]).expect("cannot read scenario")).expect("bad scenario")
    };
    let j = judge(&p, &sc, false);
    let vs: Vec<serde_json::Value> = j.violations.iter().map(|v| serde_json::json!({"rule": v.1, "signature": v.2, "detail": v.3})).collect();
    println!("{}", serde_json::json!({"scenario": sc, "record": j.record, "record_hash": format!("{:016x}", prop_salt(&j.record)), "violations": vs}));
    0
}

fn hashes_cmd(args: &[String]) -> i32 {
    let p = props::get(&args[0]).expect("unknown property");
    let tier = args[1].as_str();
    let base: u64 = args[2].parse().unwrap();
    let start: u64 = args[3].parse().unwrap();
    let count: u64 = args[4].parse().unwrap();
    for index in start..start + count {
        let r = isolate::isolated(|| per_run(&p, tier, base, index, false)).expect("run died");
        println!("{} {:016x} {}", index, r.hash, r.steps);
    }
    0
}

fn main() {
    init();
    let args: Vec<String> = std::env::args().skip(1).collect();
    if args.is_empty() {
        eprintln!("usage: hsim worker|minimise|replay|show|hashes|list ...");
        std::process::exit(2);
    }
    let rest = &args[1..];
    let code = match args[0].as_str() {
        "worker" => worker(rest),
        "minimise" => minimise_cmd(rest),
        "replay" => replay_cmd(rest),
        "show" => show_cmd(rest),
        "hashes" => hashes_cmd(rest),
        "outcome" => outcome_cmd(rest),
        "calib" => {
            calib::run();
            0
        }
        "list" => {
            for p in props::all() {
                println!(
                    "{}",
                    serde_json::json!({"id": p.id, "level": p.level, "rule": p.rule, "needed_probes": p.needed_probes, "quick_runs": p.quick_runs, "thorough_runs": p.thorough_runs, "flavours": p.flavours, "block": p.block})
                );
            }
            0
        }
        _ => {
            eprintln!("unknown command");
            2
        }
    };
    std::process::exit(code);
}
