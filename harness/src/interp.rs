//! Interpreter: runs a `Scenario` against the real hannibal code under simrt and returns the
//! event log. Total: any op on an empty / unsuitable slot is a logged no-op (`Res::Skipped`),
//! so every sub-sequence of a program is a program (needed by the minimiser).
use crate::actors::*;
use crate::log::*;
use crate::model::*;
use hannibal::prelude::*;
use hannibal::spawner::DefaultSpawnable;
use hannibal::{Addr, Broker, Caller, OwningAddr, WeakAddr};
use std::cell::RefCell;
use std::collections::BTreeMap;
use std::future::Future;
use std::pin::Pin;
use std::rc::Rc;
use std::sync::Arc;
use std::task::{Context as TCx, Poll};
use std::time::Duration;

pub enum AnyAddr {
    P(Addr<P>),
    A(Addr<SA>),
    B(Addr<SB>),
}
pub enum AnyWeak {
    P(WeakAddr<P>),
    A(WeakAddr<SA>),
    B(WeakAddr<SB>),
}
macro_rules! on_addr {
    ($a:expr, $x:ident => $body:expr) => {
        match $a {
            AnyAddr::P($x) => $body,
            AnyAddr::A($x) => $body,
            AnyAddr::B($x) => $body,
        }
    };
}
macro_rules! on_weak {
    ($a:expr, $x:ident => $body:expr) => {
        match $a {
            AnyWeak::P($x) => $body,
            AnyWeak::A($x) => $body,
            AnyWeak::B($x) => $body,
        }
    };
}
macro_rules! map_addr {
    ($a:expr, $x:ident => $body:expr) => {
        match $a {
            AnyAddr::P($x) => AnyAddr::P($body),
            AnyAddr::A($x) => AnyAddr::A($body),
            AnyAddr::B($x) => AnyAddr::B($body),
        }
    };
}

pub enum H {
    Empty,
    Addr(AnyAddr),
    Owning(OwningAddr<P>),
    WeakAddr(AnyWeak),
    Sender(Sender<Msg>),
    WeakSender(WeakSender<Msg>),
    Caller(Caller<Ask>),
    WeakCaller(WeakCaller<Ask>),
}
impl H {
    pub fn kind(&self) -> Option<HKind> {
        Some(match self {
            H::Empty => return None,
            H::Addr(_) => HKind::Addr,
            H::Owning(_) => HKind::Owning,
            H::WeakAddr(_) => HKind::WeakAddr,
            H::Sender(_) => HKind::Sender,
            H::WeakSender(_) => HKind::WeakSender,
            H::Caller(_) => HKind::Caller,
            H::WeakCaller(_) => HKind::WeakCaller,
        })
    }
}

pub struct Ent {
    pub h: H,
    pub target: Option<ActorIdx>,
}
impl Ent {
    fn empty() -> Ent {
        Ent { h: H::Empty, target: None }
    }
}

#[derive(Default)]
pub struct MailBox {
    gifts: BTreeMap<(u32, Slot), Ent>,
    waiters: Vec<std::task::Waker>,
    /// clients still running their program / currently blocked in `Take`
    active: usize,
    waiting: usize,
    /// set by the run loop when the system is quiescent with clients blocked in `Take`
    give_up: bool,
}
type Mail = Rc<RefCell<MailBox>>;

/// `Take` waits for its gift, but gives up as soon as nobody is left who could still give it
/// (all other clients finished, or all of them are waiting in a `Take` themselves).
struct TakeFut {
    mail: Mail,
    key: (u32, Slot),
    counted: bool,
}
impl Future for TakeFut {
    type Output = Option<Ent>;
    fn poll(mut self: Pin<&mut Self>, cx: &mut TCx<'_>) -> Poll<Option<Ent>> {
        let key = self.key;
        let mut m = self.mail.borrow_mut();
        if let Some(e) = m.gifts.remove(&key) {
            if self.counted {
                m.waiting -= 1;
            }
            drop(m);
            self.counted = false;
            return Poll::Ready(Some(e));
        }
        if !self.counted {
            m.waiting += 1;
        }
        if m.waiting >= m.active || m.give_up {
            // nobody can give any more: everybody gives up
            m.waiting -= 1;
            let ws = std::mem::take(&mut m.waiters);
            drop(m);
            self.counted = false;
            for w in ws {
                w.wake();
            }
            return Poll::Ready(None);
        }
        m.waiters.push(cx.waker().clone());
        drop(m);
        self.counted = true;
        Poll::Pending
    }
}
impl Drop for TakeFut {
    fn drop(&mut self) {
        if self.counted {
            self.mail.borrow_mut().waiting -= 1;
        }
    }
}

thread_local! {
    static RETAINED: RefCell<Vec<Ent>> = const { RefCell::new(Vec::new()) };
}

struct ClientCx {
    id: u32,
    slots: Vec<Ent>,
    mail: Mail,
    joins: std::collections::VecDeque<hannibal::spawner::JoinFuture<P>>,
    join_tasks: std::collections::VecDeque<simrt::RawJoin<Option<JoinVal>>>,
}
impl ClientCx {
    fn ent(&mut self, s: Slot) -> &mut Ent {
        while self.slots.len() <= s {
            self.slots.push(Ent::empty());
        }
        &mut self.slots[s]
    }
    fn put(&mut self, s: Slot, h: H, target: Option<ActorIdx>) {
        let old = std::mem::replace(self.ent(s), Ent { h, target });
        drop(old);
    }
    fn take(&mut self, s: Slot) -> Ent {
        std::mem::replace(self.ent(s), Ent::empty())
    }
}

fn res_unit(r: hannibal::error::Result<()>) -> Res {
    match r {
        Ok(()) => Res::Ok,
        Err(e) => Res::Err(e.into()),
    }
}

fn mk_msg(id: u64, work: &[Work]) -> Msg {
    Msg { id, work: Arc::new(work.to_vec()) }
}
fn mk_ask(id: u64, work: &[Work]) -> Ask {
    let nonce = next_nonce();
    log(Ev::Nonce { id, nonce });
    Ask { id, nonce, work: Arc::new(work.to_vec()) }
}

// ------------------------------------------------------------------------------------------
// spawning

fn dur(ns: u64) -> Duration {
    Duration::from_nanos(ns)
}

fn stream_for(aidx: ActorIdx, spec: &ActorSpec) -> SimStream {
    let s = spec.stream.clone().unwrap_or(StreamSpec { script: vec![], ends: false });
    SimStream::new(aidx, &s)
}

/// All synchronous spawn entry points, generic over the tag. Returns (address, owning?).
fn spawn_sync<T: TagT>(aidx: ActorIdx) -> (Option<Addr<Probe<T>>>, Option<OwningAddr<Probe<T>>>) {
    let mark = simrt::last_spawned();
    with_h(|h| h.spawn_mark = Some(mark));
    let spec = with_h(|h| h.scn.spec_of(aidx).clone());
    let entry = match spec.entry {
        // `register` is async; callers that cannot await fall back to the plain builder spawn
        Entry::BuilderRegister => Entry::BuilderSpawn,
        e => e,
    };
    let ord = spec.cfg_order % 6;
    macro_rules! base {
        () => {{
            let mut b = hannibal::build(Probe::<T>::new(aidx));
            // configuration set on the base builder, in the order the scenario asks for
            if ord == 1 || ord == 4 {
                if spec.fail_on_timeout {
                    b = b.fail_on_timeout(true);
                }
            }
            if ord == 0 || ord == 1 || ord == 5 {
                if let Some(t) = spec.timeout {
                    b = b.timeout(dur(t));
                }
            }
            if ord == 0 {
                if spec.fail_on_timeout {
                    b = b.fail_on_timeout(true);
                }
            }
            b
        }};
    }
    macro_rules! chan {
        () => {{
            let b = base!();
            let mut c = match spec.mailbox {
                None => b.unbounded(),
                Some(n) => b.bounded(n),
            };
            // ... and on the builder stage that already has its channel
            if ord == 3 || ord == 5 {
                if spec.fail_on_timeout {
                    c = c.fail_on_timeout(true);
                }
            }
            if ord == 2 || ord == 3 || ord == 4 {
                if let Some(t) = spec.timeout {
                    c = c.timeout(dur(t));
                }
            }
            if ord == 2 {
                if spec.fail_on_timeout {
                    c = c.fail_on_timeout(true);
                }
            }
            c
        }};
    }
    match entry {
        Entry::Spawn => (Some(Probe::<T>::new(aidx).spawn()), None),
        Entry::SpawnOwning => (None, Some(Probe::<T>::new(aidx).spawn_owning())),
        Entry::SpawnDefault => {
            with_h(|h| h.recreate_hint = Some(aidx));
            (Some(Probe::<T>::spawn_default().expect("spawn_default")), None)
        }
        Entry::SpawnDefaultOwning => {
            with_h(|h| h.recreate_hint = Some(aidx));
            (None, Some(<Probe<T> as DefaultSpawnable<_>>::spawn_owning().expect("spawn_owning")))
        }
        Entry::SpawnOnStream => {
            let s = stream_for(aidx, &spec);
            (Some(Probe::<T>::new(aidx).spawn_on_stream(s).expect("spawn_on_stream")), None)
        }
        Entry::SpawnOwningOnStream => {
            let s = stream_for(aidx, &spec);
            (None, Some(Probe::<T>::new(aidx).spawn_owning_on_stream(s).expect("spawn_owning_on_stream")))
        }
        Entry::BuilderSpawn | Entry::BuilderRegister => match spec.restart {
            Restart::Default => (Some(chan!().spawn()), None),
            Restart::Recreate => (Some(chan!().recreate_from_default().spawn()), None),
            Restart::NonRestartable => (Some(chan!().non_restartable().spawn()), None),
        },
        Entry::BuilderSpawnOwning => match spec.restart {
            Restart::Default => (None, Some(chan!().spawn_owning())),
            Restart::Recreate => (None, Some(chan!().recreate_from_default().spawn_owning())),
            Restart::NonRestartable => (None, Some(chan!().non_restartable().spawn_owning())),
        },
        Entry::BuilderStreamSpawn => {
            let s = stream_for(aidx, &spec);
            let b = base!();
            let a = match spec.mailbox {
                None => b.on_stream(s).spawn(),
                Some(n) => b.bounded_on_stream(n, s).spawn(),
            };
            (Some(a), None)
        }
        Entry::BuilderStreamSpawnOwning => {
            let s = stream_for(aidx, &spec);
            let b = base!();
            let a = match spec.mailbox {
                None => b.on_stream(s).spawn_owning(),
                Some(n) => b.bounded_on_stream(n, s).spawn_owning(),
            };
            (None, Some(a))
        }
        Entry::BuilderWithStreamSpawn => {
            let s = stream_for(aidx, &spec);
            (Some(chan!().non_restartable().with_stream(s).spawn()), None)
        }
    }
}

fn note_spawned(aidx: ActorIdx, inst_before: u32) {
    // the actor's loop task: the first task of the "actor loop" kind (a future that yields the
    // actor back) among those the entry point spawned; a spawner may start helper tasks as well
    let last = simrt::last_spawned();
    let mark = with_h(|h| h.spawn_mark.take());
    let task = mark
        .and_then(|m| (m + 1..=last).find(|t| simrt::task_kind(*t) == Some(simrt::TaskKind::ActorLoop)))
        .unwrap_or(last);
    log(Ev::ActorSpawned { aidx, inst: inst_before, task });
}

/// Used by handlers that spawn children (via the `SPAWN_CHILD` function pointer).
pub fn spawn_plain_addr(aidx: ActorIdx) -> Addr<P> {
    let inst = with_h(|h| h.next_inst);
    let (a, o) = spawn_sync::<Plain>(aidx);
    note_spawned(aidx, inst);
    let addr = match (a, o) {
        (Some(a), _) => a,
        (None, Some(o)) => o.detach(),
        _ => unreachable!(),
    };
    with_h(|h| {
        h.weak.insert(aidx, addr.downgrade());
    });
    addr
}

async fn spawn_op(aidx: ActorIdx) -> (H, Res) {
    let (tag, entry) = with_h(|h| {
        let s = h.scn.spec_of(aidx);
        (s.tag, s.entry)
    });
    let inst = with_h(|h| h.next_inst);
    macro_rules! svc {
        ($T:ty, $V:ident) => {{
            if entry == Entry::BuilderRegister {
                // build(..)...register(): spawn + register in one call
                let spec = with_h(|h| h.scn.spec_of(aidx).clone());
                let mut b = hannibal::build(Probe::<$T>::new(aidx));
                if let Some(t) = spec.timeout {
                    b = b.timeout(dur(t));
                }
                if spec.fail_on_timeout {
                    b = b.fail_on_timeout(true);
                }
                let c = match spec.mailbox {
                    None => b.unbounded(),
                    Some(n) => b.bounded(n),
                };
                let r = match spec.restart {
                    Restart::Default => c.register().await,
                    Restart::Recreate => c.recreate_from_default().register().await,
                    Restart::NonRestartable => c.non_restartable().register().await,
                };
                match r {
                    Ok((a, _old)) => (H::Addr(AnyAddr::$V(a)), Res::Spawned { inst }),
                    Err(e) => (H::Empty, Res::Err(e.into())),
                }
            } else {
                let (a, o) = spawn_sync::<$T>(aidx);
                note_spawned(aidx, inst);
                let a = match (a, o) {
                    (Some(a), _) => a,
                    (None, Some(o)) => o.detach(),
                    _ => unreachable!(),
                };
                (H::Addr(AnyAddr::$V(a)), Res::Spawned { inst })
            }
        }};
    }
    match tag {
        Tag::Plain => {
            let (a, o) = spawn_sync::<Plain>(aidx);
            note_spawned(aidx, inst);
            let (h, weak) = match (a, o) {
                (Some(a), _) => {
                    let w = a.downgrade();
                    (H::Addr(AnyAddr::P(a)), w)
                }
                (None, Some(o)) => {
                    let w = o.as_addr().downgrade();
                    (H::Owning(o), w)
                }
                _ => unreachable!(),
            };
            with_h(|h| {
                h.weak.insert(aidx, weak);
            });
            (h, Res::Spawned { inst })
        }
        Tag::SvcA => svc!(TA, A),
        Tag::SvcB => svc!(TB, B),
    }
}

// ------------------------------------------------------------------------------------------
// executing one operation

struct CancelAfter<'a> {
    fut: Option<Pin<Box<dyn Future<Output = Res> + 'a>>>,
    left: u32,
}
impl<'a> Future for CancelAfter<'a> {
    type Output = Res;
    fn poll(mut self: Pin<&mut Self>, cx: &mut TCx<'_>) -> Poll<Res> {
        let Some(f) = self.fut.as_mut() else {
            return Poll::Ready(Res::Abandoned);
        };
        match f.as_mut().poll(cx) {
            Poll::Ready(r) => {
                self.fut = None;
                Poll::Ready(r)
            }
            Poll::Pending => {
                self.left = self.left.saturating_sub(1);
                if self.left == 0 {
                    // client-side cancellation: drop the operation's future
                    self.fut = None;
                    probe("client_cancelled_pending_op");
                    Poll::Ready(Res::Abandoned)
                } else {
                    Poll::Pending
                }
            }
        }
    }
}

macro_rules! on_tag {
    ($tag:expr, $T:ident, $V:ident => $body:expr) => {
        match $tag {
            Tag::SvcB => {
                type $T = TB;
                #[allow(unused_macros)]
                macro_rules! wrap {
                    ($e:expr) => {
                        AnyAddr::B($e)
                    };
                }
                let $V = AIDX_SVC_B;
                $body
            }
            _ => {
                type $T = TA;
                #[allow(unused_macros)]
                macro_rules! wrap {
                    ($e:expr) => {
                        AnyAddr::A($e)
                    };
                }
                let $V = AIDX_SVC_A;
                $body
            }
        }
    };
}

fn resolve(cx: &mut ClientCx, op: &Op) -> (Option<HKind>, Option<ActorIdx>) {
    let s = match op {
        Op::Send { h, .. }
        | Op::ForceSend { h, .. }
        | Op::Call { h, .. }
        | Op::Ping { h }
        | Op::Stop { h }
        | Op::Halt { h }
        | Op::Await { h, .. }
        | Op::Restart { h }
        | Op::TryStop { h }
        | Op::TryHalt { h }
        | Op::QueryStopped { h }
        | Op::QueryRunning { h }
        | Op::Join { h }
        | Op::Consume { h }
        | Op::ConsumeSync { h }
        | Op::Detach { h, .. }
        | Op::DropThenJoin { h }
        | Op::JoinStart { h }
        | Op::SendThenDrop { h, .. }
        | Op::Clone { h, .. }
        | Op::Downgrade { h, .. }
        | Op::Upgrade { h, .. }
        | Op::ToSender { h, .. }
        | Op::ToCaller { h, .. }
        | Op::ToWeakSender { h, .. }
        | Op::ToWeakCaller { h, .. }
        | Op::ToAddr { h, .. }
        | Op::Drop { h }
        | Op::Give { h, .. }
        | Op::Register { h, .. }
        | Op::Replace { h, .. }
        | Op::Unsubscribe { h, .. }
        | Op::SubscribeExt { h, .. } => *h,
        Op::CancelAfter { op, .. } => return resolve(cx, op),
        Op::Spawn { spec, .. } => return (None, Some(*spec)),
        Op::Acquire { actor, .. } => return (None, Some(*actor)),
        _ => return (None, None),
    };
    let e = cx.ent(s);
    (e.h.kind(), e.target)
}

async fn exec(cx: &mut ClientCx, op: &Op) -> Res {
    match op {
        Op::Spawn { spec, slot } => {
            let (h, res) = spawn_op(*spec).await;
            cx.put(*slot, h, Some(*spec));
            res
        }
        Op::Acquire { actor, slot } => {
            let a = with_h(|h| h.weak.get(actor).and_then(|w| w.upgrade()));
            match a {
                Some(a) => {
                    cx.put(*slot, H::Addr(AnyAddr::P(a)), Some(*actor));
                    Res::Handle(true)
                }
                None => Res::Handle(false),
            }
        }
        Op::Send { h, id, work } => {
            let m = mk_msg(*id, work);
            match &cx.ent(*h).h {
                H::Addr(a) => res_unit(on_addr!(a, x => x.send(m).await)),
                H::Owning(o) => res_unit(o.send(m).await),
                H::Sender(s) => res_unit(s.send(m).await),
                H::WeakSender(w) => res_unit(w.try_send(m).await),
                _ => Res::Skipped,
            }
        }
        Op::SendThenDrop { h, id, work } => {
            let m = mk_msg(*id, work);
            match std::mem::replace(&mut cx.ent(*h).h, H::Empty) {
                H::Sender(s) => {
                    let f = s.send(m);
                    drop(s);
                    res_unit(f.await)
                }
                other => {
                    cx.ent(*h).h = other;
                    Res::Skipped
                }
            }
        }
        Op::ForceSend { h, id, work } => {
            let m = mk_msg(*id, work);
            match &cx.ent(*h).h {
                H::WeakSender(w) => res_unit(w.try_force_send(m)),
                _ => Res::Skipped,
            }
        }
        Op::Call { h, id, work } => {
            let m = mk_ask(*id, work);
            let r = match &cx.ent(*h).h {
                H::Addr(a) => on_addr!(a, x => x.call(m).await),
                H::Owning(o) => o.call(m).await,
                H::Caller(c) => c.call(m).await,
                H::WeakCaller(w) => w.try_call(m).await,
                _ => return Res::Skipped,
            };
            match r {
                Ok(r) => Res::Reply(r),
                Err(e) => Res::Err(e.into()),
            }
        }
        Op::Ping { h } => match &cx.ent(*h).h {
            H::Addr(a) => res_unit(on_addr!(a, x => x.ping().await)),
            H::Owning(o) => res_unit(o.ping().await),
            _ => Res::Skipped,
        },
        Op::Stop { h } => match &mut cx.ent(*h).h {
            H::Addr(a) => res_unit(on_addr!(a, x => x.stop())),
            H::Owning(o) => res_unit(o.to_addr().stop()),
            _ => Res::Skipped,
        },
        Op::Halt { h } => {
            if !matches!(cx.ent(*h).h, H::Addr(_)) {
                return Res::Skipped;
            }
            let H::Addr(a) = cx.take(*h).h else { unreachable!() };
            res_unit(on_addr!(a, x => x.halt().await))
        }
        Op::Await { h, on_clone } => {
            if !matches!(cx.ent(*h).h, H::Addr(_)) {
                if let H::Owning(o) = &cx.ent(*h).h {
                    let a = o.to_addr();
                    return res_unit(a.await);
                }
                return Res::Skipped;
            }
            if *on_clone {
                let H::Addr(a) = &cx.ent(*h).h else { unreachable!() };
                res_unit(on_addr!(a, x => x.clone().await))
            } else {
                let H::Addr(a) = cx.take(*h).h else { unreachable!() };
                res_unit(on_addr!(a, x => x.await))
            }
        }
        Op::Restart { h } => match &mut cx.ent(*h).h {
            H::Addr(a) => res_unit(on_addr!(a, x => x.restart())),
            H::Owning(o) => res_unit(o.to_addr().restart()),
            _ => Res::Skipped,
        },
        Op::TryStop { h } => match &mut cx.ent(*h).h {
            H::WeakAddr(w) => res_unit(on_weak!(w, x => x.try_stop())),
            _ => Res::Skipped,
        },
        Op::TryHalt { h } => match &mut cx.ent(*h).h {
            H::WeakAddr(w) => res_unit(on_weak!(w, x => x.try_halt().await)),
            _ => Res::Skipped,
        },
        Op::QueryStopped { h } => match &cx.ent(*h).h {
            H::Addr(a) => Res::Bool(on_addr!(a, x => x.stopped())),
            H::Owning(o) => Res::Bool(o.as_addr().stopped()),
            H::WeakAddr(w) => Res::Bool(on_weak!(w, x => x.stopped())),
            _ => Res::Skipped,
        },
        Op::QueryRunning { h } => match &cx.ent(*h).h {
            H::Addr(a) => Res::Bool(on_addr!(a, x => x.running())),
            H::Owning(o) => Res::Bool(o.as_addr().running()),
            _ => Res::Skipped,
        },
        Op::Join { h } => match &mut cx.ent(*h).h {
            H::Owning(o) => {
                let f = o.join();
                Res::Joined(f.await.map(|p| p.join_val()))
            }
            _ => Res::Skipped,
        },
        Op::Consume { h } => {
            if !matches!(cx.ent(*h).h, H::Owning(_)) {
                return Res::Skipped;
            }
            let H::Owning(o) = cx.take(*h).h else { unreachable!() };
            match o.consume().await {
                Ok(p) => Res::Joined(Some(p.join_val())),
                Err(e) => Res::Err(e.into()),
            }
        }
        Op::ConsumeSync { h } => {
            if !matches!(cx.ent(*h).h, H::Owning(_)) {
                return Res::Skipped;
            }
            let H::Owning(o) = cx.take(*h).h else { unreachable!() };
            match o.consume_sync() {
                Ok(f) => Res::Joined(f.await.map(|p| p.join_val())),
                Err(e) => Res::Err(e.into()),
            }
        }
        Op::DropThenJoin { h } => {
            if !matches!(cx.ent(*h).h, H::Owning(_)) {
                return Res::Skipped;
            }
            let H::Owning(mut o) = cx.take(*h).h else { unreachable!() };
            let f = o.join();
            drop(o);
            Res::Joined(f.await.map(|p| p.join_val()))
        }
        Op::JoinStart { h } => match &mut cx.ent(*h).h {
            H::Owning(o) => {
                let f = o.join();
                cx.joins.push_back(f);
                Res::Ok
            }
            _ => Res::Skipped,
        },
        Op::JoinFinish => match cx.joins.pop_front() {
            Some(f) => Res::Joined(f.await.map(|p| p.join_val())),
            None => Res::Skipped,
        },
        Op::JoinPoll => match cx.joins.pop_front() {
            Some(mut f) => {
                // one poll with the client's own waker; a pending future goes back to the front
                let r = std::future::poll_fn(|c| Poll::Ready(f.as_mut().poll(c))).await;
                match r {
                    Poll::Ready(v) => Res::Joined(v.map(|p| p.join_val())),
                    Poll::Pending => {
                        cx.joins.push_front(f);
                        Res::Handle(false)
                    }
                }
            }
            None => Res::Skipped,
        },
        Op::JoinSpawn => match cx.joins.pop_front() {
            Some(f) => {
                cx.join_tasks.push_back(simrt::spawn(simrt::TaskKind::Client, async move { f.await.map(|p| p.join_val()) }));
                Res::Ok
            }
            None => Res::Skipped,
        },
        Op::JoinCollect => match cx.join_tasks.pop_front() {
            Some(mut t) => match std::future::poll_fn(|c| t.poll_join(c)).await {
                Ok(v) => Res::Joined(v),
                Err(_) => Res::Skipped,
            },
            None => Res::Skipped,
        },
        Op::JoinRotate => match cx.joins.pop_front() {
            Some(f) => {
                cx.joins.push_back(f);
                Res::Ok
            }
            None => Res::Skipped,
        },
        Op::JoinDiscard => match cx.joins.pop_front() {
            Some(f) => {
                drop(f);
                Res::Ok
            }
            None => Res::Skipped,
        },
        Op::Detach { h, to } => {
            if !matches!(cx.ent(*h).h, H::Owning(_)) {
                return Res::Skipped;
            }
            let e = cx.take(*h);
            let H::Owning(o) = e.h else { unreachable!() };
            cx.put(*to, H::Addr(AnyAddr::P(o.detach())), e.target);
            Res::Ok
        }
        Op::Clone { h, to } => {
            let e = cx.ent(*h);
            let t = e.target;
            let n = match &e.h {
                H::Addr(a) => H::Addr(map_addr!(a, x => x.clone())),
                H::WeakAddr(AnyWeak::P(w)) => H::WeakAddr(AnyWeak::P(w.clone())),
                H::WeakAddr(AnyWeak::A(w)) => H::WeakAddr(AnyWeak::A(w.clone())),
                H::WeakAddr(AnyWeak::B(w)) => H::WeakAddr(AnyWeak::B(w.clone())),
                H::Sender(s) => H::Sender(s.clone()),
                H::WeakSender(s) => H::WeakSender(s.clone()),
                H::Caller(c) => H::Caller(c.clone()),
                H::WeakCaller(c) => H::WeakCaller(c.clone()),
                H::Owning(o) => H::Addr(AnyAddr::P(o.to_addr())),
                H::Empty => return Res::Skipped,
            };
            cx.put(*to, n, t);
            Res::Ok
        }
        Op::Downgrade { h, to } => {
            let e = cx.ent(*h);
            let t = e.target;
            let n = match &e.h {
                H::Addr(AnyAddr::P(a)) => H::WeakAddr(AnyWeak::P(a.downgrade())),
                H::Addr(AnyAddr::A(a)) => H::WeakAddr(AnyWeak::A(a.downgrade())),
                H::Addr(AnyAddr::B(a)) => H::WeakAddr(AnyWeak::B(a.downgrade())),
                H::Owning(o) => H::WeakAddr(AnyWeak::P(o.as_addr().downgrade())),
                H::Sender(s) => H::WeakSender(s.downgrade()),
                H::Caller(c) => H::WeakCaller(c.downgrade()),
                _ => return Res::Skipped,
            };
            cx.put(*to, n, t);
            Res::Ok
        }
        Op::Upgrade { h, to } => {
            let e = cx.ent(*h);
            let t = e.target;
            let n = match &e.h {
                H::WeakAddr(AnyWeak::P(w)) => w.upgrade().map(|a| H::Addr(AnyAddr::P(a))),
                H::WeakAddr(AnyWeak::A(w)) => w.upgrade().map(|a| H::Addr(AnyAddr::A(a))),
                H::WeakAddr(AnyWeak::B(w)) => w.upgrade().map(|a| H::Addr(AnyAddr::B(a))),
                H::WeakSender(w) => w.upgrade().map(H::Sender),
                H::WeakCaller(w) => w.upgrade().map(H::Caller),
                _ => return Res::Skipped,
            };
            match n {
                Some(n) => {
                    cx.put(*to, n, t);
                    Res::Handle(true)
                }
                None => Res::Handle(false),
            }
        }
        Op::ToSender { h, to } => {
            let e = cx.ent(*h);
            let t = e.target;
            let n = match &e.h {
                H::Addr(a) => H::Sender(on_addr!(a, x => x.sender::<Msg>())),
                H::Owning(o) => H::Sender(o.as_addr().sender::<Msg>()),
                _ => return Res::Skipped,
            };
            cx.put(*to, n, t);
            Res::Ok
        }
        Op::ToCaller { h, to } => {
            let e = cx.ent(*h);
            let t = e.target;
            let n = match &e.h {
                H::Addr(a) => H::Caller(on_addr!(a, x => x.caller::<Ask>())),
                H::Owning(o) => H::Caller(o.as_addr().caller::<Ask>()),
                _ => return Res::Skipped,
            };
            cx.put(*to, n, t);
            Res::Ok
        }
        Op::ToWeakSender { h, to } => {
            let e = cx.ent(*h);
            let t = e.target;
            let n = match &e.h {
                H::Addr(a) => H::WeakSender(on_addr!(a, x => x.weak_sender::<Msg>())),
                H::Owning(o) => H::WeakSender(o.as_addr().weak_sender::<Msg>()),
                _ => return Res::Skipped,
            };
            cx.put(*to, n, t);
            Res::Ok
        }
        Op::ToWeakCaller { h, to } => {
            let e = cx.ent(*h);
            let t = e.target;
            let n = match &e.h {
                H::Addr(a) => H::WeakCaller(on_addr!(a, x => x.weak_caller::<Ask>())),
                H::Owning(o) => H::WeakCaller(o.as_addr().weak_caller::<Ask>()),
                _ => return Res::Skipped,
            };
            cx.put(*to, n, t);
            Res::Ok
        }
        Op::ToAddr { h, to } => {
            let e = cx.ent(*h);
            let t = e.target;
            let n = match &e.h {
                H::Owning(o) => H::Addr(AnyAddr::P(o.to_addr())),
                _ => return Res::Skipped,
            };
            cx.put(*to, n, t);
            Res::Ok
        }
        Op::Drop { h } => {
            let e = cx.take(*h);
            if matches!(e.h, H::Empty) {
                return Res::Skipped;
            }
            drop(e);
            Res::Ok
        }
        Op::Give { h, client, to } => {
            let e = cx.take(*h);
            if matches!(e.h, H::Empty) {
                return Res::Skipped;
            }
            let (old, ws) = {
                let mut m = cx.mail.borrow_mut();
                (m.gifts.insert((*client, *to), e), std::mem::take(&mut m.waiters))
            };
            drop(old);
            for w in ws {
                w.wake();
            }
            Res::Ok
        }
        Op::Take { to } => {
            let e = TakeFut { mail: cx.mail.clone(), key: (cx.id, *to), counted: false }.await;
            match e {
                Some(e) => {
                    cx.put(*to, e.h, e.target);
                    Res::Handle(true)
                }
                None => Res::Handle(false),
            }
        }
        Op::FromRegistry { svc, to } => on_tag!(*svc, T, aidx => {
            let a = Probe::<T>::from_registry().await;
            cx.put(*to, H::Addr(wrap!(a)), Some(aidx));
            Res::Handle(true)
        }),
        Op::Setup { svc } => on_tag!(*svc, T, _aidx => {
            match Probe::<T>::setup().await {
                Ok(()) => Res::Ok,
                Err(_) => Res::Err(E::ServiceNotFound),
            }
        }),
        Op::Register { h, replaced_to } => {
            if !matches!(cx.ent(*h).h, H::Addr(AnyAddr::A(_)) | H::Addr(AnyAddr::B(_))) {
                return Res::Skipped;
            }
            let e = cx.take(*h);
            let t = e.target;
            macro_rules! go {
                ($a:expr, $V:ident) => {{
                    match $a.register().await {
                        Ok((me, old)) => {
                            cx.put(*h, H::Addr(AnyAddr::$V(me)), t);
                            let replaced = old.is_some();
                            if let Some(o) = old {
                                cx.put(*replaced_to, H::Addr(AnyAddr::$V(o)), None);
                            }
                            Res::Registered { replaced }
                        }
                        Err(e) => Res::Err(e.into()),
                    }
                }};
            }
            match e.h {
                H::Addr(AnyAddr::A(a)) => go!(a, A),
                H::Addr(AnyAddr::B(a)) => go!(a, B),
                _ => unreachable!(),
            }
        }
        Op::Replace { h, replaced_to } => {
            if !matches!(cx.ent(*h).h, H::Addr(AnyAddr::A(_)) | H::Addr(AnyAddr::B(_))) {
                return Res::Skipped;
            }
            // `replace(self)` consumes the handle: keep a clone in the slot, as a user would
            macro_rules! go {
                ($a:expr, $V:ident) => {{
                    let old = $a.clone().replace().await;
                    let replaced = old.is_some();
                    if let Some(o) = old {
                        cx.put(*replaced_to, H::Addr(AnyAddr::$V(o)), None);
                    }
                    Res::Registered { replaced }
                }};
            }
            let a = match &cx.ent(*h).h {
                H::Addr(AnyAddr::A(a)) => AnyAddr::A(a.clone()),
                H::Addr(AnyAddr::B(a)) => AnyAddr::B(a.clone()),
                _ => unreachable!(),
            };
            match a {
                AnyAddr::A(a) => go!(a, A),
                AnyAddr::B(a) => go!(a, B),
                _ => unreachable!(),
            }
        }
        Op::Unregister { svc, to } => on_tag!(*svc, T, _aidx => {
            match Addr::<Probe<T>>::unregister().await {
                Some(a) => {
                    cx.put(*to, H::Addr(wrap!(a)), None);
                    Res::Handle(true)
                }
                None => Res::Handle(false),
            }
        }),
        Op::TryFromRegistry { svc, to } => on_tag!(*svc, T, _aidx => {
            match Probe::<T>::try_from_registry() {
                Some(a) => {
                    cx.put(*to, H::Addr(wrap!(a)), None);
                    Res::Handle(true)
                }
                None => Res::Handle(false),
            }
        }),
        Op::AlreadyRunning { svc } => on_tag!(*svc, T, _aidx => {
            Res::OptBool(Probe::<T>::already_running().await)
        }),
        Op::Publish { topic, id, path } => {
            macro_rules! go {
                ($M:ident) => {{
                    let m = $M { id: *id };
                    match path {
                        PublishPath::Static => res_unit(Broker::<$M>::publish(m).await),
                        PublishPath::Addr => {
                            let b = Broker::<$M>::from_registry().await;
                            res_unit(b.publish(m).await)
                        }
                        PublishPath::Try => match Broker::<$M>::try_publish(m).await {
                            Some(r) => res_unit(r),
                            None => Res::Handle(false),
                        },
                    }
                }};
            }
            if *topic == 1 { go!(Topic1) } else { go!(Topic2) }
        }
        Op::BrokerPing { topic } => {
            if *topic == 1 {
                res_unit(Broker::<Topic1>::from_registry().await.ping().await)
            } else {
                res_unit(Broker::<Topic2>::from_registry().await.ping().await)
            }
        }
        Op::Unsubscribe { topic, h } => {
            let H::Addr(AnyAddr::P(a)) = &cx.ent(*h).h else { return Res::Skipped };
            if *topic == 1 {
                let ws = a.weak_sender::<Topic1>();
                res_unit(Broker::<Topic1>::from_registry().await.unsubscribe(ws).await)
            } else {
                let ws = a.weak_sender::<Topic2>();
                res_unit(Broker::<Topic2>::from_registry().await.unsubscribe(ws).await)
            }
        }
        Op::SubscribeExt { topic, h } => {
            let H::Addr(AnyAddr::P(a)) = &cx.ent(*h).h else { return Res::Skipped };
            if *topic == 1 {
                let ws = a.weak_sender::<Topic1>();
                res_unit(Broker::<Topic1>::subscribe(ws).await)
            } else {
                let ws = a.weak_sender::<Topic2>();
                res_unit(Broker::<Topic2>::subscribe(ws).await)
            }
        }
        Op::Feed { gate } => {
            open_gate(*gate);
            Res::Ok
        }
        Op::Yield(n) => {
            for _ in 0..*n {
                simrt::yield_now().await;
            }
            Res::Ok
        }
        Op::Sleep(d) => {
            simrt::sleep_ns(*d).await;
            Res::Ok
        }
        Op::CancelAfter { .. } => Res::Skipped, // handled by the caller
    }
}

async fn client_main(id: u32, ops: Vec<Op>, mail: Mail) {
    let mut cx = ClientCx { id, slots: Vec::new(), mail, joins: Default::default(), join_tasks: Default::default() };
    for (idx, op) in ops.iter().enumerate() {
        let (hk, target) = resolve(&mut cx, op);
        log(Ev::OpBegin { client: id, idx: idx as u32, op: op.clone(), hk, target });
        let res = match op {
            Op::CancelAfter { polls, op: inner } => {
                let fut: Pin<Box<dyn Future<Output = Res> + '_>> = Box::pin(exec(&mut cx, inner));
                CancelAfter { fut: Some(fut), left: (*polls).max(1) }.await
            }
            _ => exec(&mut cx, op).await,
        };
        log(Ev::OpEnd { client: id, idx: idx as u32, res });
    }
    // keep the handles alive until the epilogue drops them
    let slots = std::mem::take(&mut cx.slots);
    RETAINED.with(|r| r.borrow_mut().extend(slots));
    let ws = {
        let mut m = cx.mail.borrow_mut();
        m.active = m.active.saturating_sub(1);
        std::mem::take(&mut m.waiters)
    };
    for w in ws {
        w.wake();
    }
    log(Ev::ClientDone { client: id });
}

// ------------------------------------------------------------------------------------------
// one run

#[derive(Clone, Debug, Default, serde::Serialize)]
pub struct Outcome {
    pub clients_done: bool,
    /// quiescent with clients still pending = some operation can never resolve
    pub hung: bool,
    /// step cap reached (in which phase: 1 clients, 2 settle, 3 epilogue)
    pub cap_phase: u8,
    pub quiescent_at_end: bool,
    pub steps: u64,
    pub vtime_end: u64,
    pub replay_diverged: bool,
    /// the setup program did not run to completion (a setup operation never resolved)
    pub setup_failed: bool,
}

pub struct RunOutput {
    pub log: Vec<Rec>,
    pub outcome: Outcome,
    pub stats: simrt::Stats,
    pub decisions: Vec<u32>,
    pub hash: u64,
    pub probes: BTreeMap<&'static str, u64>,
    /// tasks still alive when the run ended: (id, kind)
    pub alive_at_end: Vec<(u32, u8)>,
    /// (task id, number of polls) for every task of the run
    pub task_polls: Vec<(u32, u32)>,
}

pub const PHASE1_CAP: u64 = 30_000;
pub const FAIR_AFTER: u64 = 6_000;
pub const PHASE2_CAP: u64 = 10_000;
pub const PHASE3_CAP: u64 = 20_000;

fn sim_config(sc: &Scenario) -> simrt::Config {
    use simrt::{Clock, Policy, TaskKind};
    let policy = match sc.sched.policy {
        PolicySpec::Uniform => Policy::Uniform,
        PolicySpec::Pct { d, horizon } => Policy::Pct { d, horizon },
        PolicySpec::StarveActors => Policy::Starve(TaskKind::ActorLoop),
        PolicySpec::StarveClients => Policy::Starve(TaskKind::Client),
        PolicySpec::StarveTimers => Policy::Starve(TaskKind::LibFuture),
        PolicySpec::Bursty => Policy::Bursty,
        PolicySpec::LowestId => Policy::LowestId,
        PolicySpec::HighestId => Policy::HighestId,
    };
    simrt::Config {
        seed: sc.sched.seed,
        policy,
        clock: if sc.sched.racing_per_mille == 0 { Clock::Ideal } else { Clock::Racing(sc.sched.racing_per_mille) },
        fair_after: FAIR_AFTER,
        spurious_per_mille: sc.sched.spurious_per_mille,
        replay: sc.sched.decisions.clone(),
    }
}

async fn clear_registry() {
    let _ = Addr::<SA>::unregister().await;
    let _ = Addr::<SB>::unregister().await;
    let _ = Addr::<Broker<Topic1>>::unregister().await;
    let _ = Addr::<Broker<Topic2>>::unregister().await;
}

fn drive_task(fut: impl Future<Output = ()> + 'static, cap: u64) -> bool {
    let done = Rc::new(std::cell::Cell::new(false));
    let d2 = done.clone();
    simrt::spawn_raw(
        simrt::TaskKind::Harness,
        Box::pin(async move {
            fut.await;
            d2.set(true);
        }),
        None,
    );
    let mut n = 0;
    while !done.get() && n < cap {
        if simrt::step() == simrt::Step::Quiescent {
            break;
        }
        n += 1;
    }
    done.get()
}

/// Runs one scenario in *this* process. Callers that need run-to-run isolation of the library's
/// process-global state (registry, context-id counter, `RandomState` keys) wrap the whole
/// per-run work in `crate::isolate::isolated`, which executes it in a forked child.
pub fn run_scenario(sc: &Scenario) -> RunOutput {
    run_scenario_here(sc)
}

fn run_scenario_here(sc: &Scenario) -> RunOutput {
    // the one hook in /repo (cfg hannibal_verif): every run starts with context id 0
    hannibal::__verif_reset_context_ids();
    crate::log::reset();
    RETAINED.with(|r| r.borrow_mut().clear());
    let scn = Arc::new(sc.clone());
    install(scn.clone());
    let cfg = sim_config(sc);
    let mut outcome = Outcome::default();
    let (stats, decisions, hash, tev, alive, task_polls) = simrt::run(cfg, || {
        // ---- prologue: the registry is process-global; make sure it is empty
        let ok = drive_task(clear_registry(), 1000);
        assert!(ok, "harness: prologue did not finish");

        // ---- install cancellation faults (addressed by actor index -> resolved at spawn time)
        let cancels: Vec<(ActorIdx, simrt::CancelWhen)> = sc
            .faults
            .iter()
            .filter_map(|f| match f.kind {
                FaultKind::CancelBeforePoll { j } => Some((f.actor, simrt::CancelWhen::BeforePoll(j))),
                FaultKind::CancelAtStep { s } => Some((f.actor, simrt::CancelWhen::AtStep(s))),
                _ => None,
            })
            .collect();
        CANCELS.with(|c| *c.borrow_mut() = cancels);

        // ---- setup program (alone with the actors it spawns)
        let mail: Mail = Rc::new(RefCell::new(MailBox::default()));
        mail.borrow_mut().active = 1;
        if !sc.setup.is_empty() {
            let ok = drive_task(client_main(SETUP_CLIENT, sc.setup.clone(), mail.clone()), PHASE1_CAP);
            if !ok {
                outcome.setup_failed = true;
            }
        }

        // ---- clients
        let n_clients = sc.clients.len();
        let done_count = Rc::new(std::cell::Cell::new(0usize));
        mail.borrow_mut().active = n_clients;
        log(Ev::Phase(Phase::ClientsStarted));
        for (i, c) in sc.clients.iter().enumerate() {
            let ops = c.ops.clone();
            let mail = mail.clone();
            let dc = done_count.clone();
            simrt::spawn_raw(
                simrt::TaskKind::Client,
                Box::pin(async move {
                    client_main(i as u32, ops, mail).await;
                    dc.set(dc.get() + 1);
                }),
                None,
            );
        }
        // phase 1: until all clients are done
        let mut n = 0u64;
        let mut quiescent = false;
        while done_count.get() < n_clients {
            apply_pending_cancels();
            if simrt::step() == simrt::Step::Quiescent {
                // clients blocked in `Take` for a gift that will never come give up (a generator
                // artefact, not a library hang)
                let ws = {
                    let mut m = mail.borrow_mut();
                    if m.waiting > 0 {
                        m.give_up = true;
                        Some(std::mem::take(&mut m.waiters))
                    } else {
                        None
                    }
                };
                match ws {
                    Some(ws) => {
                        for w in ws {
                            w.wake();
                        }
                        continue;
                    }
                    None => {
                        quiescent = true;
                        break;
                    }
                }
            }
            mail.borrow_mut().give_up = false;
            n += 1;
            if n >= PHASE1_CAP {
                outcome.cap_phase = 1;
                break;
            }
        }
        outcome.clients_done = done_count.get() == n_clients;
        outcome.hung = quiescent && !outcome.clients_done;
        log(Ev::Phase(Phase::ClientsDone));

        // phase 2: settle for a bounded virtual time
        if outcome.clients_done {
            let limit = simrt::now().saturating_add(sc.settle_ns);
            let mut n = 0u64;
            loop {
                apply_pending_cancels();
                if simrt::runnable_count() == 0 {
                    match simrt::next_deadline() {
                        Some(d) if d <= limit => {}
                        _ => break,
                    }
                }
                if simrt::step() == simrt::Step::Quiescent {
                    break;
                }
                n += 1;
                if n >= PHASE2_CAP {
                    outcome.cap_phase = 2;
                    break;
                }
            }
        }
        log(Ev::Phase(Phase::Settled));

        // phase 3: drop every handle the clients still hold, empty the registry, run to quiescence
        if sc.drop_handles {
            let held: Vec<Ent> = RETAINED.with(|r| std::mem::take(&mut *r.borrow_mut()));
            drop(held);
            let left = std::mem::take(&mut mail.borrow_mut().gifts);
            drop(left);
        }
        log(Ev::Phase(Phase::HandlesDropped));
        let _ = drive_task(clear_registry(), 2000);
        let mut n = 0u64;
        loop {
            apply_pending_cancels();
            if simrt::step() == simrt::Step::Quiescent {
                outcome.quiescent_at_end = true;
                break;
            }
            n += 1;
            if n >= PHASE3_CAP {
                if outcome.cap_phase == 0 {
                    outcome.cap_phase = 3;
                }
                break;
            }
        }
        log(Ev::Phase(Phase::End));
        outcome.steps = simrt::steps();
        outcome.vtime_end = simrt::now();
        let st = simrt::stats();
        outcome.replay_diverged = st.replay_diverged;
        let alive: Vec<(u32, u8)> =
            simrt::tasks().into_iter().filter(|t| !t.done).map(|t| (t.id, t.kind as u8)).collect();
        let polls: Vec<(u32, u32)> = simrt::tasks().into_iter().map(|t| (t.id, t.polls)).collect();
        // handles that were never dropped (drop_handles == false) go now, before teardown
        let held: Vec<Ent> = RETAINED.with(|r| std::mem::take(&mut *r.borrow_mut()));
        drop(held);
        let left = std::mem::take(&mut mail.borrow_mut().gifts);
        drop(left);
        with_h(|h| h.weak.clear());
        (st, simrt::decisions(), simrt::trace_hash(), simrt::task_events(), alive, polls)
    });
    let log = take_merged(tev);
    let probes = take_probes();
    uninstall();
    RunOutput { log, outcome, stats, decisions, hash, probes, alive_at_end: alive, task_polls }
}

thread_local! {
    static CANCELS: RefCell<Vec<(ActorIdx, simrt::CancelWhen)>> = const { RefCell::new(Vec::new()) };
}

/// Cancellation faults name scenario actors; the simulator knows tasks. Once the log shows which
/// task runs an actor (ActorSpawned), the fault is handed to the simulator.
fn apply_pending_cancels() {
    let any = CANCELS.with(|c| !c.borrow().is_empty());
    if !any {
        return;
    }
    crate::interp::resolve_cancels();
}

pub fn resolve_cancels() {
    let pending: Vec<(ActorIdx, simrt::CancelWhen)> = CANCELS.with(|c| c.borrow().clone());
    let mut rest = vec![];
    for (aidx, when) in pending {
        match crate::log::find_actor_task(aidx) {
            Some(task) => simrt::add_cancel_for_task(task, when),
            None => rest.push((aidx, when)),
        }
    }
    CANCELS.with(|c| *c.borrow_mut() = rest);
}
