//! Delta-debugging over scenarios: drop clients, ops, work items, timers, faults; simplify
//! configuration and scheduler; keep a candidate only if the *same rule* of the same property
//! still fails. Every candidate is a full simulated run of the real code.
use crate::analysis::View;
use crate::interp::run_scenario;
use crate::isolate::isolated;
use crate::model::*;
use crate::props::PropDef;

pub struct Minimiser<'a> {
    pub prop: &'a PropDef,
    pub rule: String,
    pub runs: u64,
    pub budget: u64,
}

impl<'a> Minimiser<'a> {
    pub fn fails(&mut self, sc: &Scenario) -> bool {
        self.runs += 1;
        let check = self.prop.check;
        let rule = self.rule.clone();
        let sc = sc.clone();
        // every candidate is a run of its own: isolated from the ones before it
        isolated(move || {
            let out = run_scenario(&sc);
            let v = View::new(&sc, &out);
            let hit = check(&v).iter().any(|x| x.rule == rule);
            let _ = crate::log::take_probes();
            hit
        })
        .unwrap_or(false)
    }

    fn try_replace(&mut self, cur: &mut Scenario, cand: Scenario) -> bool {
        if self.runs >= self.budget || cand == *cur {
            return false;
        }
        if self.fails(&cand) {
            *cur = cand;
            true
        } else {
            false
        }
    }

    fn shrink_ops(&mut self, cur: &mut Scenario, which: usize) {
        // which: 0 = setup, i+1 = client i
        let get = |s: &Scenario| -> Vec<Op> {
            if which == 0 { s.setup.clone() } else { s.clients[which - 1].ops.clone() }
        };
        let set = |s: &mut Scenario, ops: Vec<Op>| {
            if which == 0 { s.setup = ops } else { s.clients[which - 1].ops = ops }
        };
        // chunks first, then single ops, from the end
        let mut chunk = get(cur).len() / 2;
        while chunk >= 1 {
            let mut i = get(cur).len();
            while i >= chunk {
                let ops = get(cur);
                if i > ops.len() {
                    i = ops.len();
                    if i < chunk {
                        break;
                    }
                }
                let mut cand_ops = ops.clone();
                cand_ops.drain(i - chunk..i);
                let mut cand = cur.clone();
                set(&mut cand, cand_ops);
                if !self.try_replace(cur, cand) {
                    i -= 1;
                } else {
                    i -= chunk.min(i);
                }
                if self.runs >= self.budget {
                    return;
                }
                if i == 0 {
                    break;
                }
            }
            chunk /= 2;
        }
        // simplify the remaining ops in place
        let n = get(cur).len();
        for i in 0..n {
            let ops = get(cur);
            let simpler: Vec<Op> = match &ops[i] {
                Op::CancelAfter { op, .. } => vec![(**op).clone()],
                Op::Send { h, id, work } if !work.is_empty() => vec![Op::Send { h: *h, id: *id, work: vec![] }],
                Op::Call { h, id, work } if !work.is_empty() => {
                    let mut v = vec![Op::Call { h: *h, id: *id, work: vec![] }];
                    for k in 0..work.len() {
                        let mut w = work.clone();
                        w.remove(k);
                        v.push(Op::Call { h: *h, id: *id, work: w });
                    }
                    v
                }
                Op::Yield(n) if *n > 1 => vec![Op::Yield(1)],
                _ => vec![],
            };
            for s in simpler {
                let mut cand_ops = get(cur);
                cand_ops[i] = s;
                let mut cand = cur.clone();
                set(&mut cand, cand_ops);
                if self.try_replace(cur, cand) {
                    break;
                }
            }
        }
    }

    pub fn minimise(&mut self, start: &Scenario) -> Scenario {
        let mut cur = start.clone();
        loop {
            let before = cur.clone();
            // whole clients
            for c in 0..cur.clients.len() {
                if !cur.clients[c].ops.is_empty() {
                    let mut cand = cur.clone();
                    cand.clients[c].ops.clear();
                    self.try_replace(&mut cur, cand);
                }
            }
            // faults
            let mut i = 0;
            while i < cur.faults.len() {
                let mut cand = cur.clone();
                cand.faults.remove(i);
                if !self.try_replace(&mut cur, cand) {
                    i += 1;
                }
            }
            // ops
            for w in 0..=cur.clients.len() {
                self.shrink_ops(&mut cur, w);
            }
            // actor specs
            for a in 0..cur.actors.len() + 2 {
                let n_start = spec_at(&mut cur, a).on_start.len();
                for k in (0..n_start).rev() {
                    let mut cand = cur.clone();
                    let spec = spec_at(&mut cand, a);
                    if k < spec.on_start.len() {
                        spec.on_start.remove(k);
                    }
                    self.try_replace(&mut cur, cand);
                }
                let mut edits: Vec<Box<dyn Fn(&mut ActorSpec)>> = vec![
                    Box::new(|s| s.timeout = None),
                    Box::new(|s| s.fail_on_timeout = false),
                    Box::new(|s| s.mailbox = None),
                    Box::new(|s| s.stopped_yields = 0),
                    Box::new(|s| s.cfg_order = 0),
                    Box::new(|s| s.stopped_sleep = 0),
                    Box::new(|s| s.stopped_timer = None),
                    Box::new(|s| {
                        if let Some(st) = s.stream.as_mut() {
                            st.script.pop();
                        }
                    }),
                    Box::new(|s| {
                        if let Some(st) = s.stream.as_mut() {
                            if !st.script.is_empty() {
                                st.script.remove(0);
                            }
                        }
                    }),
                ];
                for e in edits.drain(..) {
                    loop {
                        let mut cand = cur.clone();
                        e(spec_at(&mut cand, a));
                        if !self.try_replace(&mut cur, cand) {
                            break;
                        }
                    }
                }
            }
            // scheduler / clock
            let mut cand = cur.clone();
            cand.sched.racing_per_mille = 0;
            self.try_replace(&mut cur, cand);
            let mut cand = cur.clone();
            cand.sched.spurious_per_mille = 0;
            self.try_replace(&mut cur, cand);
            for p in [PolicySpec::LowestId, PolicySpec::HighestId, PolicySpec::Uniform] {
                let mut cand = cur.clone();
                cand.sched.policy = p;
                if self.try_replace(&mut cur, cand) {
                    break;
                }
            }
            let mut cand = cur.clone();
            cand.settle_ns = 0;
            self.try_replace(&mut cur, cand);
            if cur == before || self.runs >= self.budget {
                break;
            }
        }
        cur
    }
}

fn spec_at(s: &mut Scenario, a: usize) -> &mut ActorSpec {
    let n = s.actors.len();
    if a < n {
        &mut s.actors[a]
    } else if a == n {
        &mut s.svc_a
    } else {
        &mut s.svc_b
    }
}
