//! Stub calibration: the probes of /verif/calib run on the *stubs* (same keys, same format).
use std::cell::RefCell;
use std::future::Future;
use std::rc::Rc;
use std::time::Duration;

fn drive<F: Future<Output = ()> + 'static>(f: F) {
    simrt::run(simrt::Config::default(), || {
        simrt::spawn_raw(simrt::TaskKind::Harness, Box::pin(f), None);
        let mut n = 0;
        while simrt::step() == simrt::Step::Progress && n < 100_000 {
            n += 1;
        }
    });
}

pub fn run() {
    let out: Rc<RefCell<Vec<(String, String)>>> = Rc::new(RefCell::new(vec![]));
    let o = out.clone();
    #[cfg(feature = "rt-tokio")]
    drive(async move {
        use std::sync::atomic::{AtomicBool, Ordering};
        use std::sync::Arc;
        let ran = Arc::new(AtomicBool::new(false));
        let r2 = ran.clone();
        let h = tokio::spawn(async move {
            simrt::yield_now().await;
            tokio::time::sleep(Duration::from_millis(5)).await;
            r2.store(true, Ordering::SeqCst);
        });
        drop(h);
        tokio::time::sleep(Duration::from_millis(200)).await;
        o.borrow_mut().push(("tokio.drop_handle_task_still_runs".into(), ran.load(Ordering::SeqCst).to_string()));
        let h = tokio::spawn(async { 41 + 1 });
        tokio::time::sleep(Duration::from_millis(20)).await;
        o.borrow_mut().push(("tokio.join_finished".into(), format!("{:?}", h.await.ok())));
        let h = tokio::spawn(async {
            tokio::time::sleep(Duration::from_secs(3600)).await;
            1
        });
        h.abort();
        let r = h.await;
        o.borrow_mut().push(("tokio.join_aborted_is_err_cancelled".into(), r.as_ref().err().map(|e| e.is_cancelled()).unwrap_or(false).to_string()));
        let order = Arc::new(std::sync::Mutex::new(vec![]));
        let (o1, o2) = (order.clone(), order.clone());
        let a = tokio::spawn(async move {
            tokio::time::sleep(Duration::from_millis(60)).await;
            o1.lock().unwrap().push(60)
        });
        let b = tokio::spawn(async move {
            tokio::time::sleep(Duration::from_millis(20)).await;
            o2.lock().unwrap().push(20)
        });
        let _ = (a.await, b.await);
        o.borrow_mut().push(("tokio.sleep_order".into(), format!("{:?}", order.lock().unwrap())));
    });
    #[cfg(feature = "rt-asyncstd")]
    drive(async move {
        use std::sync::atomic::{AtomicBool, Ordering};
        use std::sync::Arc;
        let ran = Arc::new(AtomicBool::new(false));
        let r2 = ran.clone();
        let h = async_std::task::spawn(async move {
            async_std::task::sleep(Duration::from_millis(5)).await;
            r2.store(true, Ordering::SeqCst);
        });
        drop(h);
        async_std::task::sleep(Duration::from_millis(200)).await;
        o.borrow_mut().push(("asyncstd.drop_handle_task_still_runs".into(), ran.load(Ordering::SeqCst).to_string()));
        let h = async_std::task::spawn(async { 41 + 1 });
        async_std::task::sleep(Duration::from_millis(20)).await;
        o.borrow_mut().push(("asyncstd.join_finished".into(), format!("{:?}", Some(h.await))));
        let order = Arc::new(std::sync::Mutex::new(vec![]));
        let (o1, o2) = (order.clone(), order.clone());
        let a = async_std::task::spawn(async move {
            async_std::task::sleep(Duration::from_millis(60)).await;
            o1.lock().unwrap().push(60)
        });
        let b = async_std::task::spawn(async move {
            async_std::task::sleep(Duration::from_millis(20)).await;
            o2.lock().unwrap().push(20)
        });
        a.await;
        b.await;
        o.borrow_mut().push(("asyncstd.sleep_order".into(), format!("{:?}", order.lock().unwrap())));
    });
    #[cfg(feature = "rt-smol")]
    drive(async move {
        use std::sync::atomic::{AtomicBool, Ordering};
        use std::sync::Arc;
        let ran = Arc::new(AtomicBool::new(false));
        let r2 = ran.clone();
        let t = smol::spawn(async move {
            smol::Timer::after(Duration::from_millis(5)).await;
            r2.store(true, Ordering::SeqCst);
        });
        drop(t);
        smol::Timer::after(Duration::from_millis(200)).await;
        o.borrow_mut().push(("smol.drop_handle_task_still_runs".into(), ran.load(Ordering::SeqCst).to_string()));
        let ran = Arc::new(AtomicBool::new(false));
        let r2 = ran.clone();
        smol::spawn(async move {
            smol::Timer::after(Duration::from_millis(5)).await;
            r2.store(true, Ordering::SeqCst);
        })
        .detach();
        smol::Timer::after(Duration::from_millis(200)).await;
        o.borrow_mut().push(("smol.detached_task_still_runs".into(), ran.load(Ordering::SeqCst).to_string()));
        let t = smol::spawn(async { 41 + 1 });
        smol::Timer::after(Duration::from_millis(20)).await;
        o.borrow_mut().push(("smol.join_finished".into(), format!("{:?}", Some(t.await))));
        let order = Arc::new(std::sync::Mutex::new(vec![]));
        let (o1, o2) = (order.clone(), order.clone());
        let a = smol::spawn(async move {
            smol::Timer::after(Duration::from_millis(60)).await;
            o1.lock().unwrap().push(60)
        });
        let b = smol::spawn(async move {
            smol::Timer::after(Duration::from_millis(20)).await;
            o2.lock().unwrap().push(20)
        });
        a.await;
        b.await;
        o.borrow_mut().push(("smol.sleep_order".into(), format!("{:?}", order.lock().unwrap())));
    });
    for (k, v) in out.borrow().iter() {
        println!("{k}={v}");
    }
}
