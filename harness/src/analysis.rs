//! Indexed view over the event log of one run; shared by all oracles.
use crate::interp::RunOutput;
use crate::log::*;
use crate::model::*;
use std::collections::BTreeMap;

#[derive(Clone, Debug)]
pub struct OpRec<'a> {
    pub client: u32,
    pub idx: u32,
    pub op: &'a Op,
    /// the innermost operation (unwraps CancelAfter)
    pub inner: &'a Op,
    pub cancel_after: Option<u32>,
    pub hk: Option<HKind>,
    pub target: Option<ActorIdx>,
    pub begin: u64,
    pub begin_vt: u64,
    pub begin_step: u64,
    pub end: Option<u64>,
    pub end_vt: u64,
    pub end_step: u64,
    pub res: Option<&'a Res>,
}
impl<'a> OpRec<'a> {
    /// the operation did not complete within the poll in which it began
    pub fn suspended(&self) -> bool {
        self.end.is_none() || self.end_step != self.begin_step
    }
    pub fn msg_id(&self) -> Option<u64> {
        match self.inner {
            Op::Send { id, .. } | Op::SendThenDrop { id, .. } | Op::ForceSend { id, .. } | Op::Call { id, .. } | Op::Publish { id, .. } => Some(*id),
            _ => None,
        }
    }
    pub fn skipped(&self) -> bool {
        matches!(self.res, Some(Res::Skipped))
    }
    pub fn ended(&self) -> bool {
        self.end.is_some()
    }
    pub fn ok(&self) -> bool {
        self.res.is_some_and(|r| r.is_ok())
    }
    pub fn err(&self) -> bool {
        self.res.is_some_and(|r| r.is_err())
    }
    pub fn abandoned(&self) -> bool {
        matches!(self.res, Some(Res::Abandoned))
    }
    /// true if the operation uses the waiting submission path (may park on a full mailbox)
    pub fn waiting_path(&self) -> bool {
        match self.inner {
            Op::Send { .. } | Op::SendThenDrop { .. } => true,
            Op::Call { .. } => matches!(self.hk, Some(HKind::Caller) | Some(HKind::WeakCaller)),
            _ => false,
        }
    }
}

#[derive(Clone, Debug)]
pub struct CbRec {
    pub inst: u32,
    pub aidx: ActorIdx,
    pub inc: u32,
    pub cb: Cb,
    pub id: u64,
    pub task: u32,
    pub enter: u64,
    pub enter_vt: u64,
    pub exit: Option<u64>,
    pub exit_vt: u64,
    pub ok: bool,
}

#[derive(Clone, Debug)]
pub struct ActorRun {
    pub task: u32,
    pub aidx: Option<ActorIdx>,
    pub spawned: u64,
    pub spawned_by: u32,
    pub dead: Option<u64>,
    pub dead_vt: u64,
    pub how: Option<u8>,
    pub cancel_requested: Option<(u64, bool)>,
    /// indices into `View::cbs`, in log order
    pub cbs: Vec<usize>,
}
impl ActorRun {
    pub fn graceful(&self) -> bool {
        self.how == Some(HOW_COMPLETED)
    }
}

#[derive(Clone, Debug)]
pub struct TimerTask {
    pub task: u32,
    pub parent_task: u32,
    pub spawned: u64,
    pub dead: Option<u64>,
    pub dead_vt: u64,
}

pub struct View<'a> {
    pub sc: &'a Scenario,
    pub out: &'a RunOutput,
    pub ops: Vec<OpRec<'a>>,
    pub cbs: Vec<CbRec>,
    /// actor loop tasks by task id
    pub actors: BTreeMap<u32, ActorRun>,
    pub timers: Vec<TimerTask>,
    pub phase: BTreeMap<Phase, u64>,
    pub clients_done: BTreeMap<u32, u64>,
    pub end_seq: u64,
}

impl<'a> View<'a> {
    pub fn new(sc: &'a Scenario, out: &'a RunOutput) -> View<'a> {
        let mut ops: Vec<OpRec<'a>> = Vec::new();
        let mut open_ops: BTreeMap<(u32, u32), usize> = BTreeMap::new();
        let mut cbs: Vec<CbRec> = Vec::new();
        let mut open_cbs: BTreeMap<(u32, u32), Vec<usize>> = BTreeMap::new(); // (task, inst) -> stack
        let mut actors: BTreeMap<u32, ActorRun> = BTreeMap::new();
        let mut timers: Vec<TimerTask> = Vec::new();
        let mut phase = BTreeMap::new();
        let mut clients_done = BTreeMap::new();
        let mut end_seq = 0;
        for r in &out.log {
            end_seq = r.st.seq;
            match &r.ev {
                Ev::OpBegin { client, idx, op, hk, target } => {
                    let (inner, ca) = match op {
                        Op::CancelAfter { polls, op: i } => (&**i, Some(*polls)),
                        o => (o, None),
                    };
                    open_ops.insert((*client, *idx), ops.len());
                    ops.push(OpRec {
                        client: *client,
                        idx: *idx,
                        op,
                        inner,
                        cancel_after: ca,
                        hk: *hk,
                        target: *target,
                        begin: r.st.seq,
                        begin_vt: r.st.vtime,
                        begin_step: r.st.step,
                        end: None,
                        end_vt: 0,
                        end_step: 0,
                        res: None,
                    });
                }
                Ev::OpEnd { client, idx, res } => {
                    if let Some(i) = open_ops.remove(&(*client, *idx)) {
                        ops[i].end = Some(r.st.seq);
                        ops[i].end_vt = r.st.vtime;
                        ops[i].end_step = r.st.step;
                        ops[i].res = Some(res);
                    }
                }
                Ev::ClientDone { client } => {
                    clients_done.insert(*client, r.st.seq);
                }
                Ev::CbEnter { inst, aidx, inc, cb, id } => {
                    let i = cbs.len();
                    cbs.push(CbRec {
                        inst: *inst,
                        aidx: *aidx,
                        inc: *inc,
                        cb: *cb,
                        id: *id,
                        task: r.st.task,
                        enter: r.st.seq,
                        enter_vt: r.st.vtime,
                        exit: None,
                        exit_vt: 0,
                        ok: false,
                    });
                    open_cbs.entry((r.st.task, *inst)).or_default().push(i);
                    if let Some(a) = actors.get_mut(&r.st.task) {
                        a.cbs.push(i);
                        if a.aidx.is_none() {
                            a.aidx = Some(*aidx);
                        }
                    }
                }
                Ev::CbExit { inst, cb, id, ok, .. } => {
                    if let Some(st) = open_cbs.get_mut(&(r.st.task, *inst)) {
                        if let Some(pos) = st.iter().rposition(|i| cbs[*i].cb == *cb && cbs[*i].id == *id) {
                            let i = st.remove(pos);
                            cbs[i].exit = Some(r.st.seq);
                            cbs[i].exit_vt = r.st.vtime;
                            cbs[i].ok = *ok;
                        }
                    }
                }
                Ev::ActorSpawned { aidx, task, .. } => {
                    if let Some(a) = actors.get_mut(task) {
                        a.aidx = Some(*aidx);
                    }
                }
                Ev::Phase(p) => {
                    phase.insert(*p, r.st.seq);
                }
                Ev::Task(TaskE::Spawned { id, kind, parent }) => {
                    if *kind == KIND_ACTOR {
                        actors.insert(
                            *id,
                            ActorRun {
                                task: *id,
                                aidx: None,
                                spawned: r.st.seq,
                                spawned_by: *parent,
                                dead: None,
                                dead_vt: 0,
                                how: None,
                                cancel_requested: None,
                                cbs: vec![],
                            },
                        );
                    } else if *kind == KIND_LIB {
                        timers.push(TimerTask { task: *id, parent_task: *parent, spawned: r.st.seq, dead: None, dead_vt: 0 });
                    }
                }
                Ev::Task(TaskE::Done { id, kind, how }) => {
                    if *kind == KIND_ACTOR {
                        if let Some(a) = actors.get_mut(id) {
                            a.dead = Some(r.st.seq);
                            a.dead_vt = r.st.vtime;
                            a.how = Some(*how);
                        }
                    } else if *kind == KIND_LIB {
                        if let Some(t) = timers.iter_mut().find(|t| t.task == *id) {
                            t.dead = Some(r.st.seq);
                            t.dead_vt = r.st.vtime;
                        }
                    }
                }
                Ev::Task(TaskE::CancelRequested { id, injected }) => {
                    if let Some(a) = actors.get_mut(id) {
                        a.cancel_requested = Some((r.st.seq, *injected));
                    }
                }
                _ => {}
            }
        }
        View { sc, out, ops, cbs, actors, timers, phase, clients_done, end_seq }
    }

    /// the (single) actor run of scenario actor `aidx`, if it was spawned exactly once
    pub fn actor_of(&self, aidx: ActorIdx) -> Option<&ActorRun> {
        let mut it = self.actors.values().filter(|a| a.aidx == Some(aidx));
        let a = it.next()?;
        if it.next().is_some() {
            return None;
        }
        Some(a)
    }
    pub fn actors_of(&self, aidx: ActorIdx) -> Vec<&ActorRun> {
        self.actors.values().filter(|a| a.aidx == Some(aidx)).collect()
    }
    pub fn cbs_of(&self, a: &ActorRun) -> impl Iterator<Item = &CbRec> {
        a.cbs.iter().map(|i| &self.cbs[*i])
    }
    pub fn handler_cbs_of(&self, a: &ActorRun) -> impl Iterator<Item = &CbRec> {
        self.cbs_of(a).filter(|c| c.cb.is_handler())
    }
    /// did any fault fire in this run (callback faults, cancellations, panics)?
    pub fn any_fault(&self) -> bool {
        self.out.log.iter().any(|r| {
            matches!(
                r.ev,
                Ev::FaultFired { .. }
                    | Ev::Task(TaskE::CancelRequested { .. })
                    | Ev::Task(TaskE::Done { how: HOW_PANICKED, .. })
                    | Ev::Task(TaskE::Done { how: HOW_CANCELLED, .. })
            )
        })
    }
    pub fn phase_seq(&self, p: Phase) -> u64 {
        self.phase.get(&p).copied().unwrap_or(u64::MAX)
    }
}

#[derive(Clone, Debug, serde::Serialize)]
pub struct Violation {
    pub property: String,
    /// stable identifier of the violated rule (first part of the signature)
    pub rule: String,
    /// rule + API entry point / configuration: what known_findings.json matches against
    pub signature: String,
    pub detail: String,
}

pub fn violation(prop: &str, rule: &str, sig_extra: &str, detail: String) -> Violation {
    let signature = if sig_extra.is_empty() { format!("{prop}:{rule}") } else { format!("{prop}:{rule}:{sig_extra}") };
    Violation { property: prop.to_string(), rule: rule.to_string(), signature, detail }
}

/// Signature of "what happened in which order": the sequence of client-op and callback events
/// in log order (without sequence numbers, steps or times). Two runs with the same signature
/// had the same observable interleaving.
pub fn event_order_signature(v: &View) -> u64 {
    let mut h = 0xcbf2_9ce4_8422_2325u64;
    let mut f = |x: u64| {
        h ^= x;
        h = h.wrapping_mul(0x0000_0100_0000_01B3);
        h ^= h >> 31;
    };
    for r in &v.out.log {
        match &r.ev {
            Ev::OpBegin { client, idx, .. } => f(1 | (*client as u64) << 8 | (*idx as u64) << 24),
            Ev::OpEnd { client, idx, res } => {
                f(2 | (*client as u64) << 8 | (*idx as u64) << 24 | (res.is_ok() as u64) << 60 | (res.is_err() as u64) << 61)
            }
            Ev::CbEnter { aidx, inst, cb, id, .. } => {
                f(3 | (*aidx as u64) << 8 | (*inst as u64) << 28 | cb.code() << 44);
                f(*id)
            }
            Ev::CbExit { aidx, inst, cb, id, .. } => {
                f(4 | (*aidx as u64) << 8 | (*inst as u64) << 28 | cb.code() << 44);
                f(*id)
            }
            Ev::TimerSubmit { aidx, timer, n, .. } => f(5 | (*aidx as u64) << 8 | (*timer as u64) << 28 | (*n as u64) << 40),
            Ev::Task(TaskE::Done { kind, how, .. }) if *kind == KIND_ACTOR => f(6 | (*how as u64) << 8),
            Ev::Phase(p) => f(7 | (*p as u64) << 8),
            _ => {}
        }
    }
    h
}

/// Coverage probes derived from the log ("this rare condition was reached").
pub fn coverage_probes(v: &View) {
    use crate::log::probe;
    for o in &v.ops {
        if o.skipped() || o.client == SETUP_CLIENT {
            continue;
        }
        if matches!(o.inner, Op::Send { .. }) && o.suspended() {
            probe("send_parked");
        }
        if matches!(o.inner, Op::Call { .. } | Op::Ping { .. }) {
            if let Some(a) = o.target.and_then(|t| v.actor_of(t)) {
                if let Some(d) = a.dead {
                    if o.begin < d && o.end.map_or(true, |e| e > d) {
                        probe("call_pending_at_death");
                    }
                }
            }
        }
    }
    if v.out.stats.timers_fired_while_runnable > 0 {
        probe("timer_fired_while_runnable");
    }
    if v.out.stats.racing_clock_jumps > 0 {
        probe("racing_clock_jump");
    }
    if v.out.stats.spurious_polls > 0 {
        probe("spurious_poll");
    }
    if v.out.stats.select_draws > 0 {
        probe("select_tie_break_drawn");
    }
}

#[derive(Clone, Debug)]
pub struct StopReq {
    /// when the request was issued (op begin; handler entry for Context::stop)
    pub begin: u64,
    /// when an accepted request had returned (None: rejected or never returned)
    pub accepted_ret: Option<u64>,
    pub by_client: Option<u32>,
}

impl<'a> View<'a> {
    /// final incarnation's `stopped` callback, if it ran to completion and nothing followed it
    pub fn final_stopped(&self, a: &ActorRun) -> Option<&CbRec> {
        let last = a.cbs.last().map(|i| &self.cbs[*i])?;
        if last.cb == Cb::Stopped && last.exit.is_some() { Some(last) } else { None }
    }
    /// graceful termination: the task completed, `stopped` was the last callback and ran to its
    /// end, and no `started` reported an error
    pub fn graceful(&self, a: &ActorRun) -> bool {
        a.how == Some(HOW_COMPLETED)
            && self.final_stopped(a).is_some()
            && !self.cbs_of(a).any(|c| c.cb == Cb::Started && c.exit.is_some() && !c.ok)
            // ground truth of the injector: an actor into which a failure was injected (started
            // error, panic, cancellation, handler timeout with fail_on_timeout) has failed, whatever
            // its callback trace looks like
            && !self.fault_injected(a)
    }
    /// did the harness inject anything into this actor that makes a failed termination legitimate?
    pub fn fault_injected(&self, a: &ActorRun) -> bool {
        let aidx = a.aidx;
        if a.cancel_requested.is_some() || matches!(a.how, Some(HOW_PANICKED) | Some(HOW_CANCELLED)) {
            return true;
        }
        if self.out.log.iter().any(|r| matches!(&r.ev, Ev::FaultFired { actor, .. } if Some(*actor) == aidx)) {
            return true;
        }
        if let Some(ai) = aidx {
            let spec = self.sc.spec_of(ai);
            if spec.effective_fail_on_timeout() && self.handler_cbs_of(a).any(|c| c.exit.is_none()) {
                return true;
            }
        }
        false
    }
    /// all stop requests addressed to scenario actor `aidx`, through any entry point
    pub fn stop_requests(&self, aidx: ActorIdx) -> Vec<StopReq> {
        let mut v = vec![];
        for o in &self.ops {
            if o.target != Some(aidx) || o.skipped() {
                continue;
            }
            match o.inner {
                Op::Stop { .. } | Op::TryStop { .. } => v.push(StopReq {
                    begin: o.begin,
                    accepted_ret: if matches!(o.res, Some(Res::Ok)) { o.end } else { None },
                    by_client: Some(o.client),
                }),
                Op::Halt { .. } | Op::TryHalt { .. } | Op::Consume { .. } | Op::ConsumeSync { .. } => v.push(StopReq {
                    begin: o.begin,
                    // the stop inside was accepted iff the whole op did not fail early; be
                    // conservative: acceptance is only known once the op returned Ok
                    accepted_ret: if o.ok() { o.end } else { None },
                    by_client: Some(o.client),
                }),
                _ => {}
            }
        }
        for r in &self.out.log {
            if let Ev::CtxRes { aidx: a, what: CtxOp::Stop, ok, id, inst } = &r.ev {
                if *a == aidx {
                    let begin = self
                        .cbs
                        .iter()
                        .rev()
                        .find(|c| c.inst == *inst && c.id == *id && c.enter < r.st.seq)
                        .map(|c| c.enter)
                        .unwrap_or(r.st.seq);
                    v.push(StopReq { begin, accepted_ret: if *ok { Some(r.st.seq) } else { None }, by_client: None });
                }
            }
        }
        v.sort_by_key(|s| s.begin);
        v
    }
}

impl<'a> View<'a> {
    /// Is the actor demonstrably busy at `seq`: inside a callback, or with an accepted message /
    /// submitted tick it has not taken out yet?  (Used by liveness-style rules so that an actor
    /// that is still legitimately draining is not mistaken for one that is kept alive.)
    pub fn busy_at(&self, a: &ActorRun, seq: u64) -> bool {
        if self.cbs_of(a).any(|c| c.enter < seq && c.exit.is_none_or(|x| x > seq)) {
            return true;
        }
        // an actor whose first `started()` has not run yet is starting, not idle
        if !self.cbs_of(a).any(|c| c.cb == Cb::Started && c.enter < seq) {
            return true;
        }
        let Some(aidx) = a.aidx else { return false };
        for o in self.ops.iter().filter(|o| o.target == Some(aidx) && !o.skipped()) {
            if let (Op::Send { id, .. } | Op::SendThenDrop { id, .. } | Op::ForceSend { id, .. } | Op::Call { id, .. }, true) = (o.inner, o.begin < seq) {
                let entered = self.cbs_of(a).any(|c| c.id == *id && c.enter < seq);
                // (an operation its client gave up may still have put its message into the
                // mailbox: if the handler runs later, it had)
                let enqueued = (!o.err() && !o.abandoned()) || self.cbs_of(a).any(|c| c.id == *id);
                if !entered && enqueued {
                    return true;
                }
            }
        }
        let mut submitted = 0usize;
        for r in &self.out.log {
            if r.st.seq >= seq {
                break;
            }
            if let Ev::TimerSubmit { aidx: x, .. } = &r.ev {
                if *x == aidx {
                    submitted += 1;
                }
            }
        }
        let ticks = self.cbs_of(a).filter(|c| c.cb == Cb::Tick && c.enter < seq).count();
        submitted > ticks
    }
}

impl<'a> View<'a> {
    pub fn vtime_at(&self, seq: u64) -> u64 {
        match self.out.log.binary_search_by_key(&seq, |r| r.st.seq) {
            Ok(i) => self.out.log[i].st.vtime,
            Err(i) => self.out.log.get(i.saturating_sub(1)).map(|r| r.st.vtime).unwrap_or(0),
        }
    }
}
