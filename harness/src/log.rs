//! Event log of one simulated run. Every event carries the simulator's global sequence number
//! (the total order used for all before/after judgements), step, virtual time and task.
use crate::model::*;
use serde::Serialize;
use std::cell::RefCell;
use std::collections::BTreeMap;

#[derive(Clone, Copy, Debug, PartialEq, Eq, Hash, Serialize, PartialOrd, Ord)]
pub enum Cb {
    Started,
    Stopped,
    Finished,
    Msg,
    Ask,
    Tick,
    Topic(u8),
    Item,
    Unit,
}
impl Cb {
    pub fn is_handler(self) -> bool {
        !matches!(self, Cb::Started | Cb::Stopped | Cb::Finished)
    }
    pub fn code(self) -> u64 {
        match self {
            Cb::Started => 1,
            Cb::Stopped => 2,
            Cb::Finished => 3,
            Cb::Msg => 4,
            Cb::Ask => 5,
            Cb::Tick => 6,
            Cb::Topic(t) => 7 + ((t as u64) << 8),
            Cb::Item => 8,
            Cb::Unit => 9,
        }
    }
}

#[derive(Clone, Copy, Debug, PartialEq, Eq, Hash, Serialize)]
pub enum E {
    /// mpsc send error (receiver gone / channel closed)
    SendError,
    /// oneshot cancelled (response slot or running future dropped)
    Canceled,
    AlreadyStopped,
    ServiceNotFound,
    ServiceStillRunning,
    Timeout,
}
impl From<hannibal::error::ActorError> for E {
    fn from(e: hannibal::error::ActorError) -> E {
        use hannibal::error::ActorError as A;
        match e {
            A::AsyncSendError(_) => E::SendError,
            A::Canceled(_) => E::Canceled,
            A::AlreadyStopped => E::AlreadyStopped,
            A::ServiceNotFound => E::ServiceNotFound,
            A::ServiceStillRunning => E::ServiceStillRunning,
            A::Timeout => E::Timeout,
        }
    }
}

#[derive(Clone, Debug, PartialEq, Eq, Serialize)]
pub struct Reply {
    pub id: u64,
    pub nonce: u64,
    pub inst: u32,
    pub aidx: ActorIdx,
    pub inc: u32,
    pub invocation: u32,
    pub digest: u64,
    pub n_entered: u32,
}

#[derive(Clone, Debug, PartialEq, Eq, Serialize)]
pub struct JoinVal {
    pub inst: u32,
    pub aidx: ActorIdx,
    pub inc: u32,
    pub entered: Vec<u64>,
    pub exited: Vec<u64>,
    pub stopped_mark: u32,
}

#[derive(Clone, Debug, PartialEq, Eq, Serialize)]
pub enum Res {
    /// slot empty or of a kind the operation does not apply to: nothing was done
    Skipped,
    Ok,
    Err(E),
    Reply(Reply),
    Bool(bool),
    OptBool(Option<bool>),
    /// a handle was (Some) / was not (None) obtained
    Handle(bool),
    Joined(Option<JoinVal>),
    Registered { replaced: bool },
    /// the client dropped the operation's future before it completed
    Abandoned,
    Spawned { inst: u32 },
}
impl Res {
    pub fn is_ok(&self) -> bool {
        matches!(
            self,
            Res::Ok | Res::Reply(_) | Res::Registered { .. } | Res::Joined(Some(_)) | Res::Spawned { .. }
        )
    }
    pub fn is_err(&self) -> bool {
        matches!(self, Res::Err(_))
    }
    fn code(&self) -> u64 {
        match self {
            Res::Skipped => 1,
            Res::Ok => 2,
            Res::Err(e) => 3 + ((*e as u64) << 8),
            Res::Reply(r) => 4 ^ r.id.rotate_left(8) ^ (r.inst as u64).rotate_left(40) ^ r.digest,
            Res::Bool(b) => 5 + ((*b as u64) << 8),
            Res::OptBool(b) => 6 + ((b.map(|x| x as u64 + 1).unwrap_or(0)) << 8),
            Res::Handle(b) => 7 + ((*b as u64) << 8),
            Res::Joined(j) => 8 + (j.as_ref().map(|v| (v.inst as u64 + 1) << 8 ^ (v.entered.len() as u64) << 32).unwrap_or(0)),
            Res::Registered { replaced } => 9 + ((*replaced as u64) << 8),
            Res::Abandoned => 10,
            Res::Spawned { inst } => 11 + ((*inst as u64) << 8),
        }
    }
}

#[derive(Clone, Copy, Debug, PartialEq, Eq, Hash, Serialize)]
pub enum CtxOp {
    Stop,
    Restart,
    SelfUpgrade,
    Subscribe(u8),
    Publish(u8),
}

#[derive(Clone, Copy, Debug, PartialEq, Eq, Hash, Serialize, PartialOrd, Ord)]
pub enum Phase {
    ClientsStarted,
    ClientsDone,
    Settled,
    HandlesDropped,
    End,
}

#[derive(Clone, Debug, PartialEq, Eq, Serialize)]
pub enum TaskE {
    Spawned { id: u32, kind: u8, parent: u32 },
    Done { id: u32, kind: u8, how: u8 },
    CancelRequested { id: u32, injected: bool },
}

#[derive(Clone, Debug, PartialEq, Eq, Serialize)]
pub enum Ev {
    OpBegin { client: u32, idx: u32, op: Op, hk: Option<HKind>, target: Option<ActorIdx> },
    OpEnd { client: u32, idx: u32, res: Res },
    ClientDone { client: u32 },
    /// the nonce the harness put into the `Ask` with this id
    Nonce { id: u64, nonce: u64 },
    Created { inst: u32, aidx: ActorIdx, by_default: bool },
    /// the spawn entry point returned; `task` is the simulator task running the actor's loop
    ActorSpawned { aidx: ActorIdx, inst: u32, task: u32 },
    CbEnter { inst: u32, aidx: ActorIdx, inc: u32, cb: Cb, id: u64 },
    CbExit { inst: u32, aidx: ActorIdx, inc: u32, cb: Cb, id: u64, ok: bool },
    Progress { inst: u32, id: u64, k: u32 },
    CtxRes { inst: u32, aidx: ActorIdx, id: u64, what: CtxOp, ok: bool },
    PeerRes { inst: u32, id: u64, target: ActorIdx, res: Res },
    TimerReg { inst: u32, aidx: ActorIdx, inc: u32, timer: u32, kind: TimerKind, period: u64 },
    /// the instant a timer task hands its message to the mailbox (or runs, for delayed_exec)
    TimerSubmit { aidx: ActorIdx, inst: u32, reg_inc: u32, timer: u32, n: u32 },
    StreamYield { aidx: ActorIdx, id: u64 },
    StreamEnd { aidx: ActorIdx },
    /// the library polled the stream again after it had returned `None` (streams may panic then)
    StreamPolledAfterEnd { aidx: ActorIdx },
    /// a select! in the stream loop polled the stream while it had an item ready (coverage probe)
    GateOpened { gate: u32 },
    FaultFired { actor: ActorIdx, what: u8 },
    /// a parent registered a child (add_child / register_child)
    ChildAdded { parent: ActorIdx, parent_inst: u32, child: ActorIdx, key: ChildKey },
    /// a parent executed send_to_children
    Broadcast { parent: ActorIdx, parent_inst: u32, key: ChildKey, id: u64 },
    Phase(Phase),
    Task(TaskE),
}

#[derive(Clone, Copy, Debug, PartialEq, Eq, Serialize)]
pub struct St {
    pub seq: u64,
    pub step: u64,
    pub vtime: u64,
    pub task: u32,
}

#[derive(Clone, Debug, PartialEq, Eq, Serialize)]
pub struct Rec {
    pub st: St,
    pub ev: Ev,
}

fn ev_code(ev: &Ev) -> u64 {
    match ev {
        Ev::OpBegin { client, idx, hk, target, .. } => {
            1 ^ (*client as u64) << 8
                ^ (*idx as u64) << 16
                ^ (hk.map(|h| h as u64 + 1).unwrap_or(0)) << 40
                ^ (target.map(|t| t as u64 + 1).unwrap_or(0)) << 44
        }
        Ev::OpEnd { client, idx, res } => {
            (2 ^ (*client as u64) << 8 ^ (*idx as u64) << 16).wrapping_add(res.code().rotate_left(24))
        }
        Ev::ClientDone { client } => 3 ^ (*client as u64) << 8,
        Ev::Nonce { id, nonce } => 19 ^ id.rotate_left(8) ^ nonce.rotate_left(36),
        Ev::Created { inst, aidx, by_default } => {
            4 ^ (*inst as u64) << 8 ^ (*aidx as u64) << 32 ^ (*by_default as u64) << 60
        }
        Ev::ActorSpawned { aidx, inst, task } => {
            5 ^ (*inst as u64) << 8 ^ (*aidx as u64) << 28 ^ (*task as u64) << 44
        }
        Ev::CbEnter { inst, inc, cb, id, .. } => {
            (6 ^ (*inst as u64) << 8 ^ (*inc as u64) << 28 ^ cb.code() << 40).wrapping_add(id.rotate_left(13))
        }
        Ev::CbExit { inst, inc, cb, id, ok, .. } => {
            (7 ^ (*inst as u64) << 8 ^ (*inc as u64) << 28 ^ cb.code() << 40 ^ (*ok as u64) << 63)
                .wrapping_add(id.rotate_left(13))
        }
        Ev::Progress { inst, id, k } => (8 ^ (*inst as u64) << 8 ^ (*k as u64) << 40).wrapping_add(id.rotate_left(13)),
        Ev::CtxRes { inst, id, what, ok, .. } => {
            let w = match what {
                CtxOp::Stop => 1,
                CtxOp::Restart => 2,
                CtxOp::SelfUpgrade => 3,
                CtxOp::Subscribe(t) => 4 + *t as u64 * 8,
                CtxOp::Publish(t) => 5 + *t as u64 * 8,
            };
            (9 ^ (*inst as u64) << 8 ^ w << 40 ^ (*ok as u64) << 63).wrapping_add(id.rotate_left(13))
        }
        Ev::PeerRes { inst, id, target, res } => {
            (10 ^ (*inst as u64) << 8 ^ (*target as u64) << 40).wrapping_add(id.rotate_left(13)) ^ res.code().rotate_left(20)
        }
        Ev::TimerReg { inst, inc, timer, kind, period, .. } => {
            11 ^ (*inst as u64) << 8 ^ (*inc as u64) << 28 ^ (*timer as u64) << 36 ^ (*kind as u64) << 44 ^ period.rotate_left(48)
        }
        Ev::TimerSubmit { inst, reg_inc, timer, n, .. } => {
            12 ^ (*inst as u64) << 8 ^ (*reg_inc as u64) << 28 ^ (*timer as u64) << 36 ^ (*n as u64) << 44
        }
        Ev::StreamYield { aidx, id } => (13 ^ (*aidx as u64) << 8).wrapping_add(id.rotate_left(13)),
        Ev::StreamEnd { aidx } => 14 ^ (*aidx as u64) << 8,
        Ev::StreamPolledAfterEnd { aidx } => 22 ^ (*aidx as u64) << 8,
        Ev::GateOpened { gate } => 15 ^ (*gate as u64) << 8,
        Ev::FaultFired { actor, what } => 16 ^ (*actor as u64) << 8 ^ (*what as u64) << 40,
        Ev::Phase(p) => 17 ^ (*p as u64) << 8,
        Ev::ChildAdded { parent, child, key, .. } => 20 ^ (*parent as u64) << 8 ^ (*child as u64) << 28 ^ (*key as u64) << 48,
        Ev::Broadcast { parent, key, id, .. } => (21 ^ (*parent as u64) << 8 ^ (*key as u64) << 48).wrapping_add(id.rotate_left(13)),
        Ev::Task(_) => 18, // task events are hashed by simrt itself
    }
}

thread_local! {
    static LOG: RefCell<Vec<Rec>> = const { RefCell::new(Vec::new()) };
    static PROBES: RefCell<BTreeMap<&'static str, u64>> = const { RefCell::new(BTreeMap::new()) };
}

pub fn reset() {
    LOG.with(|l| l.borrow_mut().clear());
    PROBES.with(|p| p.borrow_mut().clear());
}

/// Append an event. Never draws from a PRNG and never reads a real clock.
pub fn log(ev: Ev) -> u64 {
    let s = simrt::stamp();
    simrt::hash_in(ev_code(&ev) ^ s.seq.rotate_left(50));
    let st = St { seq: s.seq, step: s.step, vtime: s.vtime, task: s.task };
    LOG.with(|l| l.borrow_mut().push(Rec { st, ev }));
    st.seq
}

pub fn probe(name: &'static str) {
    PROBES.with(|p| *p.borrow_mut().entry(name).or_insert(0) += 1);
}

pub fn take_probes() -> BTreeMap<&'static str, u64> {
    PROBES.with(|p| std::mem::take(&mut *p.borrow_mut()))
}

/// Take the log and merge the simulator's task events into it by sequence number.
pub fn take_merged(task_events: Vec<simrt::TaskEv>) -> Vec<Rec> {
    let mut v = LOG.with(|l| std::mem::take(&mut *l.borrow_mut()));
    for te in task_events {
        let st = St { seq: te.stamp.seq, step: te.stamp.step, vtime: te.stamp.vtime, task: te.stamp.task };
        let ev = match te.kind {
            simrt::TaskEvKind::Spawned { id, kind, parent } => TaskE::Spawned { id, kind: kind as u8, parent },
            simrt::TaskEvKind::Done { id, kind, how } => TaskE::Done { id, kind: kind as u8, how: how as u8 },
            simrt::TaskEvKind::CancelRequested { id, injected } => TaskE::CancelRequested { id, injected },
        };
        v.push(Rec { st, ev: Ev::Task(ev) });
    }
    v.sort_by_key(|r| r.st.seq);
    v
}

pub const KIND_HARNESS: u8 = 0;
pub const KIND_CLIENT: u8 = 1;
pub const KIND_ACTOR: u8 = 2;
pub const KIND_LIB: u8 = 3;
pub const HOW_COMPLETED: u8 = 0;
pub const HOW_PANICKED: u8 = 1;
pub const HOW_CANCELLED: u8 = 2;

/// Which simulator task runs the loop of scenario actor `aidx` (known once it was spawned).
pub fn find_actor_task(aidx: ActorIdx) -> Option<u32> {
    LOG.with(|l| {
        for r in l.borrow().iter() {
            match &r.ev {
                Ev::ActorSpawned { aidx: a, task, .. } if *a == aidx => return Some(*task),
                Ev::CbEnter { aidx: a, cb: Cb::Started, .. } if *a == aidx => return Some(r.st.task),
                _ => {}
            }
        }
        None
    })
}
