//! C12 — a bounded mailbox exerts backpressure on send; unbounded and stop never wait.
use super::PropDef;
use crate::actors::tick_id;
use crate::analysis::*;
use crate::log::*;
use crate::model::*;
use crate::sgen::*;
use std::collections::{BTreeMap, BTreeSet};

const P: &str = "C12";

pub fn def() -> PropDef {
    PropDef {
        id: P,
        level: "exploration",
        generate,
        check,
        nontrivial,
        rule: "mailbox bounded(0..4) (and unbounded control runs), 1-4 concurrent senders using Addr::send / OwningAddr::send / Sender::send / WeakSender::try_send and interval_with timers, mixed with non-waiting traffic (call, ping, interval, try_force_send), handler durations 0..30 virtual ticks or yields, stop / try_stop issued against a full mailbox; x seeded schedules; the backlog bound is evaluated on every prefix of the log; non-trivial = at least one send parked; distinct = distinct order of client-op and callback events",
        needed_probes: &["send_parked", "c12_prefix_checked", "c12_unbounded_send_checked", "c12_stop_with_backlog"],
        quick_runs: 200_000,
        thorough_runs: 2_000_000,
        block: 1,
        flavours: &["tokio"],
        outcome: None,
        extra_profiles: &["C01", "C02", "C03", "C04", "C07", "C11", "C13", "C16", "C17"],
        adapt: None,
    }
}

pub fn generate(g: &mut G, _index: u64) -> Scenario {
    let mailbox = if g.chance(1, 6) { None } else { Some(g.below(5) as usize) };
    let owning = g.chance(1, 3);
    let mut spec = ActorSpec { mailbox, entry: if owning { Entry::BuilderSpawnOwning } else { Entry::BuilderSpawn }, ..Default::default() };
    let nt = g.below(3);
    for t in 0..nt {
        // the tick handlers together use at most half of the actor's time, so that it can always
        // catch up ("every send returns once the actor catches up" presupposes that it can)
        let period = g.range(4, 25);
        let max_sleep = period / (2 * nt);
        spec.on_start.push(Work::Timer(TimerSpec {
            id: t as u32,
            kind: g.pick(&[TimerKind::IntervalWith, TimerKind::IntervalWith, TimerKind::Interval]),
            period,
            handler_sleep: if g.chance(1, 3) && max_sleep >= 1 { g.range(1, max_sleep) } else { 0 },
        }));
    }
    let kinds = [HKind::Addr, HKind::Sender, HKind::Sender, HKind::WeakSender, HKind::WeakSender, HKind::Caller];
    let nclients = g.range(1, 4) as usize;
    let mut fam = one_actor(g, spec, nclients, &kinds, (1, 2));
    for c in 0..nclients {
        let n = g.range(2, 10);
        let mut ops = vec![];
        for _ in 0..n {
            let s = g.pick(&fam.slots[c].any());
            let k = fam.slots[c].get(s).unwrap();
            let work = match g.below(6) {
                0 | 1 => vec![],
                2 => vec![Work::Yield(g.range(1, 3) as u32)],
                _ => vec![Work::Sleep(g.range(1, 30))],
            };
            let id = g.id();
            let op = match k {
                HKind::Addr | HKind::Owning => match g.below(6) {
                    0..=3 => Op::Send { h: s, id, work },
                    4 => Op::Call { h: s, id, work },
                    _ => Op::Ping { h: s },
                },
                HKind::Sender => Op::Send { h: s, id, work },
                HKind::WeakSender => {
                    if g.chance(1, 5) { Op::ForceSend { h: s, id, work } } else { Op::Send { h: s, id, work } }
                }
                _ => Op::Call { h: s, id, work },
            };
            if g.chance(1, 12) {
                ops.push(Op::CancelAfter { polls: g.range(1, 2) as u32, op: Box::new(op) });
            } else {
                ops.push(op);
            }
            if g.chance(1, 5) {
                ops.push(Op::Yield(1));
            }
        }
        fam.sc.clients[c].ops.extend(ops);
    }
    if g.chance(1, 2) {
        // stop against a (possibly) full mailbox
        let at = fam.pos(g, 0);
        let ops = match g.below(3) {
            0 => vec![Op::Stop { h: PRIMARY }],
            1 => vec![Op::Downgrade { h: PRIMARY, to: TMP }, Op::TryStop { h: TMP }],
            _ => vec![Op::Clone { h: PRIMARY, to: TMP }, Op::Halt { h: TMP }],
        };
        fam.insert(0, at, ops);
    }
    // sometimes a restart is requested while senders are parked on the full mailbox
    if g.chance(1, 6) {
        add_slow_restart(g, &mut fam);
    }
    fam.sc.sched = g.sched(true);
    fam.sc.settle_ns = 200;
    fam.sc
}

pub fn check(v: &View) -> Vec<Violation> {
    let mut out = vec![];
    for a in v.actors.values() {
        let Some(aidx) = a.aidx else { continue };
        if aidx >= AIDX_SVC_A || v.actors_of(aidx).len() != 1 {
            continue;
        }
        let spec = v.sc.spec_of(aidx);
        // the live receive loop ends when the final incarnation enters stopped() (R13) or dies
        let horizon = v.cbs_of(a).filter(|c| c.cb == Cb::Stopped).map(|c| c.enter).last().or(a.dead).unwrap_or(u64::MAX);
        let sends: BTreeMap<u64, &OpRec> = v
            .ops
            .iter()
            .filter(|o| o.target == Some(aidx) && matches!(o.inner, Op::Send { .. }) && !o.skipped())
            .filter_map(|o| o.end.map(|e| (e, o)))
            .collect();
        match spec.effective_mailbox() {
            Some(n) => {
                // timer kinds by id (registered in started or in handlers)
                let mut waiting_timer: BTreeSet<(u32, u32)> = BTreeSet::new();
                let mut entered: BTreeSet<(u64, u64)> = BTreeSet::new();
                let mut outstanding: BTreeSet<(u64, u64)> = BTreeSet::new(); // (cb code, id)
                let mut worst = 0usize;
                for r in &v.out.log {
                    if r.st.seq >= horizon {
                        break;
                    }
                    match &r.ev {
                        Ev::TimerReg { aidx: x, inc, timer, kind, .. } if *x == aidx => {
                            if matches!(kind, TimerKind::IntervalWith) {
                                waiting_timer.insert((*inc, *timer));
                            }
                        }
                        Ev::OpEnd { res: Res::Ok, .. } => {
                            if let Some(o) = sends.get(&r.st.seq) {
                                let key = (Cb::Msg.code(), o.msg_id().unwrap());
                                if !entered.contains(&key) {
                                    outstanding.insert(key);
                                }
                            }
                        }
                        Ev::TimerSubmit { aidx: x, inst, reg_inc, timer, n: k } if *x == aidx && *k >= 1 => {
                            // interval_with only asks for message k after send k-1 returned Ok
                            if waiting_timer.contains(&(*reg_inc, *timer)) {
                                let key = (Cb::Tick.code(), tick_id(*inst, *reg_inc, *timer, *k - 1));
                                if !entered.contains(&key) {
                                    outstanding.insert(key);
                                }
                            }
                        }
                        Ev::CbEnter { aidx: x, cb, id, .. } if *x == aidx && r.st.task == a.task => {
                            let key = (cb.code(), *id);
                            entered.insert(key);
                            outstanding.remove(&key);
                        }
                        _ => continue,
                    }
                    crate::log::probe("c12_prefix_checked");
                    if outstanding.len() > worst {
                        worst = outstanding.len();
                        if worst > n {
                            out.push(violation(
                                P,
                                "backlog-exceeds-bound",
                                &format!("bounded({n})"),
                                format!("actor {aidx} bounded({n}): at seq {} {} sends had returned Ok whose messages the actor had not yet taken out: {:?}", r.st.seq, worst, outstanding),
                            ));
                        }
                    }
                }
            }
            None => {
                for o in sends.values() {
                    crate::log::probe("c12_unbounded_send_checked");
                    if o.suspended() {
                        out.push(violation(P, "unbounded-send-waited", &format!("{:?}", o.hk.unwrap()), format!("actor {aidx} (unbounded): send {:?} begun at seq {} did not complete within its first poll", o.msg_id(), o.begin)));
                    }
                }
            }
        }
        // every send resolves
        if v.out.outcome.hung || v.out.outcome.cap_phase == 1 {
            for o in v.ops.iter().filter(|o| o.target == Some(aidx) && matches!(o.inner, Op::Send { .. }) && !o.ended()) {
                out.push(violation(P, "send-never-returns", &format!("{:?}", o.hk.unwrap()), format!("actor {aidx}: send {:?} begun at seq {} never returned", o.msg_id(), o.begin)));
            }
        }
        // a stop request never waits for mailbox space and is accepted while the actor runs
        for o in v.ops.iter().filter(|o| o.target == Some(aidx) && matches!(o.inner, Op::Stop { .. } | Op::TryStop { .. }) && !o.skipped()) {
            // "runs": its event loop has not ended (the `stopped` that nothing follows has not
            // begun), and a request made through a weak handle has a strong handle to upgrade to
            let loop_ended = v.cbs_of(a).last().is_some_and(|c| c.cb == Cb::Stopped && c.enter <= o.begin);
            let upgradable = o.hk.is_none_or(|k| k.strong()) || crate::census::census(v, aidx).certain_at(o.begin) > 0;
            let alive = a.dead.is_none_or(|d| o.begin < d) && !loop_ended && upgradable;
            if alive {
                // was there a backlog at that moment?
                let queued = v.ops.iter().any(|s| s.target == Some(aidx) && matches!(s.inner, Op::Send { .. }) && s.begin < o.begin && s.end.is_none_or(|e| e > o.begin));
                if queued {
                    crate::log::probe("c12_stop_with_backlog");
                }
                if !matches!(o.res, Some(Res::Ok)) || o.suspended() {
                    out.push(violation(P, "stop-not-accepted", "", format!("actor {aidx}: {:?} at seq {} while the actor was running returned {:?} (suspended: {})", o.inner, o.begin, o.res, o.suspended())));
                }
            }
        }
    }
    out
}

pub fn nontrivial(v: &View) -> bool {
    v.ops.iter().any(|o| matches!(o.inner, Op::Send { .. }) && !o.skipped() && o.client != SETUP_CLIENT && o.suspended())
}
