//! C17 — OwningAddr hands back the actor's final state exactly once.
use super::PropDef;
use crate::analysis::*;
use crate::log::*;
use crate::model::*;
use crate::sgen::*;

const P: &str = "C17";

pub fn def() -> PropDef {
    PropDef {
        id: P,
        level: "exploration",
        generate,
        check,
        nontrivial,
        rule: "client programs mixing submissions through the owning address and derived handles (other clients) with join / consume / consume_sync / detach / drop-then-join, join futures created early and awaited late, repeated and racing joins, a concurrent stop from another client, and in a quarter of the runs a failure (started error, panic, timeout failure, task cancellation); x seeded schedules; the joined value is compared with the fold of the log; non-trivial = a join was in flight while another client submitted or stopped, or joins were repeated; distinct = distinct order of client-op and callback events",
        needed_probes: &["c17_value_checked", "c17_second_join", "c17_failed_join", "c17_detached_checked", "c17_join_raced"],
        quick_runs: 200_000,
        thorough_runs: 2_000_000,
        block: 1,
        flavours: &["tokio"],
        outcome: None,
        extra_profiles: &["C01", "C02", "C03", "C04", "C05"],
        adapt: None,
    }
}

pub fn generate(g: &mut G, _index: u64) -> Scenario {
    let spec = ActorSpec {
        mailbox: g.mailbox(),
        entry: g.pick(&[Entry::BuilderSpawnOwning, Entry::BuilderSpawnOwning, Entry::SpawnOwning, Entry::SpawnDefaultOwning]),
        stopped_yields: g.below(3) as u32,
        stopped_sleep: if g.chance(1, 4) { g.range(5, 40) } else { 0 },
        // a handler timeout (shorter than a slow stopped()) must not touch stopped() or the value
        timeout: if g.chance(1, 4) { Some(g.range(3, 20)) } else { None },
        fail_on_timeout: g.chance(1, 2),
        ..Default::default()
    };
    let weak_only = g.chance(1, 5);
    let kinds: &[HKind] = if weak_only { &[HKind::WeakSender, HKind::WeakCaller] } else { &[HKind::Addr, HKind::Sender, HKind::Caller, HKind::WeakSender] };
    let nclients = g.range(1, 3) as usize;
    let mut fam = one_actor(g, spec, nclients, kinds, (1, 2));
    fill_submissions(g, &mut fam, 6, 12);
    if weak_only {
        // the owning address is the only strong handle: a join future taken first must resolve
        // with the value once that handle is dropped (no stop request anywhere)
        let ops = &mut fam.sc.clients[0].ops;
        if g.chance(1, 2) {
            ops.push(Op::JoinStart { h: PRIMARY });
            ops.push(Op::Send { h: PRIMARY, id: g.id(), work: vec![] });
            if g.chance(1, 2) {
                ops.push(Op::Detach { h: PRIMARY, to: TMP });
                ops.push(Op::Drop { h: TMP });
            } else {
                ops.push(Op::Drop { h: PRIMARY });
            }
            ops.push(Op::JoinFinish);
        } else {
            ops.push(Op::DropThenJoin { h: PRIMARY });
        }
        fam.sc.sched = g.sched(true);
        fam.sc.settle_ns = 100;
        return fam.sc;
    }
    // failures
    match g.below(12) {
        0 => apply_cause(g, &mut fam, Cause::StartErr),
        1 => apply_cause(g, &mut fam, Cause::HandlerPanic),
        2 => apply_cause(g, &mut fam, Cause::TimeoutFail),
        3 => apply_cause(g, &mut fam, Cause::CancelPoll),
        4 => apply_cause(g, &mut fam, Cause::RestartErr),
        _ => {}
    }
    // somebody else stops the actor concurrently (so that joins always resolve)
    let other_stops = nclients > 1 && g.chance(2, 3);
    if other_stops {
        if let Some(s) = fam.slots[1].of_kind(&[HKind::Addr]).first().copied() {
            let at = fam.pos(g, 1);
            fam.insert(1, at, vec![Op::Stop { h: s }]);
        } else {
            let id = g.id();
            let s = fam.slots[1].any()[0];
            let k = fam.slots[1].get(s).unwrap();
            let op = match k {
                HKind::Caller => Op::Call { h: s, id, work: vec![Work::CtxStop] },
                _ => Op::Send { h: s, id, work: vec![Work::CtxStop] },
            };
            let at = fam.pos(g, 1);
            fam.insert(1, at, vec![op]);
        }
    }
    let ops = &mut fam.sc.clients[0].ops;
    let stop = |ops: &mut Vec<Op>| {
        if !other_stops {
            ops.push(Op::Stop { h: PRIMARY })
        }
    };
    match g.below(15) {
        13 | 14 => {
            // a random choreography of 2-4 join futures: created, polled, moved to tasks of
            // their own, passed over, dropped - then the actor is stopped (or let go of) and
            // whatever is left is awaited: everything resolves, at most one gets the value
            let n = g.range(2, 4);
            for _ in 0..n {
                ops.push(Op::JoinStart { h: PRIMARY });
            }
            let mut spawned = 0;
            for _ in 0..g.range(2, 8) {
                ops.push(match g.below(8) {
                    0 | 1 | 2 => Op::JoinPoll,
                    3 | 4 => Op::JoinRotate,
                    5 => Op::JoinDiscard,
                    6 => {
                        spawned += 1;
                        Op::JoinSpawn
                    }
                    _ => Op::Yield(g.range(1, 2) as u32),
                });
            }
            stop(ops);
            for _ in 0..n {
                ops.push(Op::JoinFinish);
            }
            for _ in 0..spawned {
                ops.push(Op::JoinCollect);
            }
        }
        12 => {
            // three joins: the first pending in a task of its own, the second answered None while
            // the first is pending, the third begun before the actor ends - the first still gets
            // the value, nobody waits for ever
            ops.push(Op::JoinStart { h: PRIMARY });
            ops.push(Op::JoinStart { h: PRIMARY });
            ops.push(Op::JoinStart { h: PRIMARY });
            ops.push(Op::JoinSpawn);
            ops.push(Op::Yield(g.range(1, 3) as u32));
            ops.push(Op::JoinPoll);
            ops.push(Op::JoinPoll);
            stop(ops);
            ops.push(Op::JoinFinish);
            ops.push(Op::JoinFinish);
            ops.push(Op::JoinCollect);
        }
        11 => {
            // two join futures pending at the same time in different tasks: both resolve when the
            // actor has terminated (one gets the value, the other None)
            ops.push(Op::JoinStart { h: PRIMARY });
            ops.push(Op::JoinStart { h: PRIMARY });
            if g.chance(1, 2) {
                ops.push(Op::JoinSpawn);
                ops.push(Op::Yield(g.range(1, 3) as u32));
                ops.push(Op::JoinPoll);
            } else {
                ops.push(Op::JoinPoll);
                ops.push(Op::JoinSpawn);
                ops.push(Op::Yield(g.range(1, 3) as u32));
            }
            stop(ops);
            ops.push(Op::JoinFinish);
            ops.push(Op::JoinCollect);
        }
        10 => {
            // a join future that was polled once and is kept, unpolled, must not block later joins
            ops.push(Op::JoinStart { h: PRIMARY });
            ops.push(Op::JoinPoll);
            stop(ops);
            ops.push(Op::Await { h: PRIMARY, on_clone: true });
            ops.push(Op::Join { h: PRIMARY });
            ops.push(Op::JoinFinish);
        }
        9 => {
            // a join future that is created but never polled takes nothing away
            ops.push(Op::JoinStart { h: PRIMARY });
            ops.push(Op::JoinDiscard);
            stop(ops);
            ops.push(Op::Join { h: PRIMARY });
        }
        0 => {
            stop(ops);
            ops.push(Op::Join { h: PRIMARY });
            ops.push(Op::Join { h: PRIMARY });
        }
        1 => {
            ops.push(Op::JoinStart { h: PRIMARY });
            ops.push(Op::Call { h: PRIMARY, id: g.id(), work: vec![] });
            stop(ops);
            ops.push(Op::JoinFinish);
            ops.push(Op::Join { h: PRIMARY });
        }
        2 => ops.push(Op::Consume { h: PRIMARY }),
        3 => ops.push(Op::ConsumeSync { h: PRIMARY }),
        4 => {
            ops.push(Op::Detach { h: PRIMARY, to: TMP });
            ops.push(Op::Call { h: TMP, id: g.id(), work: vec![] });
            ops.push(Op::Yield(2));
            ops.push(Op::Call { h: TMP, id: g.id(), work: vec![] });
            ops.push(Op::Stop { h: TMP });
            ops.push(Op::Await { h: TMP, on_clone: true });
        }
        5 => {
            ops.push(Op::JoinStart { h: PRIMARY });
            ops.push(Op::JoinStart { h: PRIMARY });
            stop(ops);
            ops.push(Op::JoinFinish);
            ops.push(Op::JoinFinish);
        }
        6 => {
            // join racing with whatever the others are doing
            if !other_stops {
                if fam.sc.actors[0].timeout.is_some() {
                    // (a handler that a timeout may abandon must not be the one that stops the actor)
                    ops.push(Op::Stop { h: PRIMARY });
                } else {
                    ops.push(Op::Send { h: PRIMARY, id: g.id(), work: vec![Work::Yield(2), Work::CtxStop] });
                }
            }
            ops.push(Op::Join { h: PRIMARY });
            ops.push(Op::Join { h: PRIMARY });
        }
        7 => {
            stop(ops);
            ops.push(Op::DropThenJoin { h: PRIMARY });
        }
        _ => {
            stop(ops);
            ops.push(Op::Await { h: PRIMARY, on_clone: true });
            ops.push(Op::Join { h: PRIMARY });
            ops.push(Op::JoinStart { h: PRIMARY });
            ops.push(Op::JoinFinish);
        }
    }
    fam.sc.sched = g.sched(true);
    fam.sc.settle_ns = 100;
    fam.sc
}

fn is_join(o: &Op) -> bool {
    matches!(o, Op::Join { .. } | Op::JoinFinish | Op::JoinCollect | Op::DropThenJoin { .. } | Op::Consume { .. } | Op::ConsumeSync { .. })
}
// (JoinPoll that finds its future ready reports Joined(..) like a join; one that stays pending is
// not an ended join)

pub fn check(v: &View) -> Vec<Violation> {
    let mut out = vec![];
    for a in v.actors.values() {
        let Some(aidx) = a.aidx else { continue };
        if aidx >= AIDX_SVC_A || v.actors_of(aidx).len() != 1 {
            continue;
        }
        let graceful = v.graceful(a);
        let fs_exit = v.final_stopped(a).and_then(|c| c.exit);
        // JoinFinish has no slot: attribute it to the client's owning address (client 0 holds it)
        let joins: Vec<&OpRec> = v
            .ops
            .iter()
            .filter(|o| (is_join(o.inner) || (matches!(o.inner, Op::JoinPoll) && matches!(o.res, Some(Res::Joined(_))))) && !o.skipped() && (o.target == Some(aidx) || (matches!(o.inner, Op::JoinFinish | Op::JoinPoll | Op::JoinCollect) && v.sc.actors.len() == 1)))
            .collect();
        let mut somes = 0;
        for o in &joins {
            let Some(end) = o.end else { continue };
            match o.res {
                Some(Res::Joined(Some(j))) => {
                    somes += 1;
                    crate::log::probe("c17_value_checked");
                    let kind = crate::props::c02::op_name(o.inner);
                    if !graceful {
                        out.push(violation(P, "value-although-failed", kind, format!("actor {aidx}: {kind} returned the actor value although the actor did not terminate gracefully (how {:?})", a.how)));
                        continue;
                    }
                    if fs_exit.is_none_or(|x| end < x) {
                        out.push(violation(P, "joined-before-stopped-finished", kind, format!("actor {aidx}: {kind} returned at seq {end}, before stopped() had finished ({fs_exit:?})")));
                    }
                    // the value is the final state: all handler effects of that value, and the stopped mark
                    let last_inst = v.cbs_of(a).last().map(|c| c.inst);
                    let ent: Vec<u64> = v.handler_cbs_of(a).filter(|c| c.inst == j.inst).map(|c| c.id).collect();
                    let mut ex: Vec<(u64, u64)> = v.handler_cbs_of(a).filter(|c| c.inst == j.inst).filter_map(|c| c.exit.map(|x| (x, c.id))).collect();
                    ex.sort();
                    let ex: Vec<u64> = ex.into_iter().map(|x| x.1).collect();
                    let stops = v.cbs_of(a).filter(|c| c.inst == j.inst && c.cb == Cb::Stopped && c.exit.is_some()).count() as u32;
                    if Some(j.inst) != last_inst || j.entered != ent || j.exited != ex || j.stopped_mark != stops || j.aidx != aidx {
                        out.push(violation(P, "joined-value-not-final-state", kind, format!("actor {aidx}: {kind} returned value inst {} entered {:?} exited {:?} stopped_mark {}, log says inst {:?} entered {:?} exited {:?} stopped x{}", j.inst, j.entered, j.exited, j.stopped_mark, last_inst, ent, ex, stops)));
                    }
                }
                Some(Res::Joined(None)) => {
                    if !graceful {
                        crate::log::probe("c17_failed_join");
                    }
                    // a None before the actor's end is only legitimate if another join took the handle
                    if a.dead.is_none_or(|d| end < d) {
                        let other = joins.iter().any(|x| (x.client, x.idx) != (o.client, o.idx) && x.begin < end);
                        // (a kept join future may have taken the handle - unless it was never polled)
                        let discarded = v.ops.iter().filter(|x| matches!(x.inner, Op::JoinDiscard) && matches!(x.res, Some(Res::Ok))).count();
                        let started_before = v.ops.iter().filter(|x| matches!(x.inner, Op::JoinStart { .. }) && x.begin < end && !x.skipped()).count() > discarded;
                        if !other && !started_before {
                            out.push(violation(P, "none-before-termination", "", format!("actor {aidx}: {:?} returned None at seq {end} while the actor was still running and no other join existed", o.inner)));
                        }
                    }
                }
                _ => {}
            }
        }
        // consume / consume_sync resolve "exactly when the actor has terminated": an error that
        // comes back while the actor is still on its way out (e.g. inside a slow `stopped()`)
        // is too early, and the value can then never be handed out
        if !v.fault_injected(a) {
            for o in joins.iter().filter(|o| matches!(o.inner, Op::Consume { .. } | Op::ConsumeSync { .. }) && o.ended()) {
                if matches!(o.res, Some(Res::Err(_))) && a.dead.is_none_or(|d| o.end.unwrap() < d) {
                    out.push(violation(P, "consume-failed-before-termination", crate::props::c02::op_name(o.inner), format!("actor {aidx}: {:?} returned {:?} at seq {} while the actor had not terminated yet (dead {:?})", o.inner, o.res, o.end.unwrap(), a.dead)));
                }
            }
        }
        if somes >= 1 && joins.iter().filter(|o| o.ended()).count() >= 2 {
            crate::log::probe("c17_second_join");
        }
        if somes > 1 {
            out.push(violation(P, "value-handed-out-twice", "", format!("actor {aidx}: {somes} joins returned the actor value")));
        }
        let all_ended = joins.iter().all(|o| o.ended());
        let any_after_death = joins.iter().any(|o| matches!(o.res, Some(Res::Joined(_))) && a.dead.is_some_and(|d| o.end.unwrap() > d));
        // consume* whose stop was rejected (actor already gone) fail early without joining: they
        // do not take the handle, but a later join would; only judge when a plain join happened
        // (a join future that had claimed the task - polled, pending - and was then dropped took
        // the value with it)
        let claimed_and_dropped = v.ops.iter().any(|x| matches!(x.inner, Op::JoinPoll) && matches!(x.res, Some(Res::Handle(false))))
            && v.ops.iter().any(|x| matches!(x.inner, Op::JoinDiscard) && matches!(x.res, Some(Res::Ok)));
        if graceful && somes == 0 && all_ended && any_after_death && !claimed_and_dropped {
            out.push(violation(P, "value-lost", "", format!("actor {aidx}: terminated gracefully, {} join operations completed, none returned the value", joins.len())));
        }
        // detach leaves the actor running and answering
        for o in v.ops.iter().filter(|o| o.target == Some(aidx) && matches!(o.inner, Op::Detach { .. }) && matches!(o.res, Some(Res::Ok))) {
            let stop_before = v.stop_requests(aidx).iter().map(|r| r.begin).min().unwrap_or(u64::MAX);
            let Op::Detach { to, .. } = o.inner else { continue };
            // calls through the detached address, until that slot is given up
            let until = v.ops.iter().filter(|c| c.client == o.client && c.idx > o.idx && matches!(c.inner, Op::Drop { h } | Op::Halt { h } | Op::Give { h, .. } | Op::Await { h, on_clone: false } if h == to)).map(|c| c.idx).min().unwrap_or(u32::MAX);
            for c in v.ops.iter().filter(|c| c.client == o.client && c.idx > o.idx && c.idx < until && matches!(c.inner, Op::Call { h, .. } if h == to) && c.ended()) {
                if c.end.unwrap() < stop_before && !v.fault_injected(a) {
                    crate::log::probe("c17_detached_checked");
                    if !matches!(c.res, Some(Res::Reply(_))) {
                        out.push(violation(P, "detach-affected-actor", "", format!("actor {aidx}: call after detach returned {:?} although nobody had stopped the actor", c.res)));
                    }
                }
            }
        }
        // joins resolve once the actor has terminated (or can terminate: nothing strong is left)
        // (a join on a running actor that nobody stops and that is still held - be it by the owning
        // address the join came from - legitimately waits for ever)
        let stop_accepted = v.stop_requests(aidx).iter().any(|r| r.accepted_ret.is_some());
        let unheld = crate::census::census(v, aidx).t0().is_some_and(|t| t < v.phase_seq(Phase::ClientsDone));
        if (v.out.outcome.hung || v.out.outcome.cap_phase == 1) && (a.dead.is_some() || stop_accepted || unheld) {
            for o in joins.iter().filter(|o| !o.ended()) {
                out.push(violation(P, "join-never-resolves", crate::props::c02::op_name(o.inner), format!("actor {aidx}: {:?} begun at seq {} never returned (actor dead: {:?})", o.inner, o.begin, a.dead)));
            }
        }
        // race coverage
        for o in &joins {
            let e = o.end.unwrap_or(u64::MAX);
            if v.ops.iter().any(|x| x.client != o.client && x.target == Some(aidx) && x.begin > o.begin && x.begin < e && matches!(x.inner, Op::Send { .. } | Op::Call { .. } | Op::Stop { .. })) {
                crate::log::probe("c17_join_raced");
            }
        }
    }
    out
}

pub fn nontrivial(v: &View) -> bool {
    let joins: Vec<&OpRec> = v.ops.iter().filter(|o| is_join(o.inner) && !o.skipped()).collect();
    if joins.len() >= 2 {
        return true;
    }
    for o in &joins {
        let e = o.end.unwrap_or(u64::MAX);
        if v.ops.iter().any(|x| x.client != o.client && x.begin > o.begin && x.begin < e && matches!(x.inner, Op::Send { .. } | Op::Call { .. } | Op::Stop { .. })) {
            return true;
        }
    }
    false
}
