//! C18 — spawn / detach / join behave identically on tokio, async-std and smol.
//! Confluent single-client programs x every spawn entry point; the same scenario is run by the
//! hsim binary of each runtime feature under three schedules; the driver compares the canonical
//! outcome records. In addition every flavour must satisfy the reference oracles by itself.
use super::PropDef;
use crate::analysis::*;
use crate::log::*;
use crate::model::*;
use crate::sgen::*;

const P: &str = "C18";

#[cfg(feature = "rt-tokio")]
pub const FLAVOUR: &str = "tokio";
#[cfg(feature = "rt-asyncstd")]
pub const FLAVOUR: &str = "asyncstd";
#[cfg(feature = "rt-smol")]
pub const FLAVOUR: &str = "smol";

pub fn def() -> PropDef {
    PropDef {
        id: P,
        level: "exploration",
        generate,
        check,
        nontrivial,
        rule: "timing-independent single-client programs (call/send/ping, stop+await, detach, join twice, consume, drop the OwningAddr and go on through a plain address, last-drop, restart, interval ticks sampled mid-period on the ideal clock, registry lookups and respawn) x every spawn entry point (spawn, spawn_owning, spawn_default, spawn_owning of DefaultSpawnable, spawn_on_stream, spawn_owning_on_stream, builder spawn / spawn_owning / register for unbounded, bounded and all restart strategies, builder on_stream / bounded_on_stream / with_stream terminals, from_registry, setup, register); each program runs on the hsim binary of each runtime feature (real spawner code of that feature over the behavioural stub of that runtime's task handle) under 3 schedules; non-trivial = the (entry point, runtime) pair produced an outcome record that was compared with the other runtimes; distinct = distinct (program, runtime, schedule) records",
        needed_probes: &["c18_alive_after_spawn_checked", "c18_owning_dropped", "c18_stream_builder_spawn", "c18_registry_entry"],
        quick_runs: 18_000,
        thorough_runs: 900_000,
        block: 3,
        flavours: &["tokio", "asyncstd", "smol"],
        outcome: Some(outcome),
        // thorough tier: half of the runs are other properties' (schedule-dependent) programs on all
        // three runtimes; they cannot be compared record by record, but every runtime must satisfy
        // the reference oracles on them
        extra_profiles: &["C01", "C03", "C04", "C05", "C07", "C10", "C12", "C13", "C17"],
        adapt: Some(adapt),
    }
}

/// The runtimes differ, by design, in how a panicking or externally cancelled task is reported
/// to its joiner (and the property is about spawning, detaching, joining, stopping and timers):
/// on the async-std and smol builds those two fault kinds are taken out of foreign scenarios.
fn adapt(sc: &mut Scenario) {
    if FLAVOUR == "tokio" {
        return;
    }
    sc.faults.retain(|f| matches!(f.kind, FaultKind::StartErr { .. }));
    fn clean(w: &mut Vec<Work>) {
        w.retain(|x| !matches!(x, Work::Panic));
    }
    fn clean_op(o: &mut Op) {
        match o {
            Op::Send { work, .. } | Op::ForceSend { work, .. } | Op::Call { work, .. } => clean(work),
            Op::CancelAfter { op, .. } => clean_op(op),
            _ => {}
        }
    }
    for a in sc.actors.iter_mut() {
        clean(&mut a.on_start);
    }
    for o in sc.setup.iter_mut() {
        clean_op(o);
    }
    for c in sc.clients.iter_mut() {
        for o in c.ops.iter_mut() {
            clean_op(o);
        }
    }
}

const ENTRIES: [Entry; 12] = [
    Entry::Spawn,
    Entry::SpawnOwning,
    Entry::SpawnDefault,
    Entry::SpawnDefaultOwning,
    Entry::SpawnOnStream,
    Entry::SpawnOwningOnStream,
    Entry::BuilderSpawn,
    Entry::BuilderSpawnOwning,
    Entry::BuilderRegister,
    Entry::BuilderStreamSpawn,
    Entry::BuilderStreamSpawnOwning,
    Entry::BuilderWithStreamSpawn,
];

pub fn generate(g: &mut G, index: u64) -> Scenario {
    let mut sc = Scenario::empty(0);
    let prog = index / 3;
    let variant = index % 3;
    // 12 spawn entry points + 3 registry entry points
    let e = (prog % 15) as usize;
    let mut ops: Vec<Op> = vec![];
    let period = g.range(8, 14);
    if e >= 12 {
        // from_registry / setup / register of a hand-spawned instance
        let svc = g.pick(&[Tag::SvcA, Tag::SvcB]);
        sc.actors.push(ActorSpec { tag: svc, entry: Entry::Spawn, ..Default::default() });
        match e {
            12 => ops.push(Op::FromRegistry { svc, to: 0 }),
            13 => {
                ops.push(Op::Setup { svc });
                ops.push(Op::Yield(3));
                ops.push(Op::FromRegistry { svc, to: 0 });
            }
            _ => {
                ops.push(Op::Spawn { spec: 0, slot: 0 });
                ops.push(Op::Register { h: 0, replaced_to: 5 });
                ops.push(Op::Yield(3));
                ops.push(Op::FromRegistry { svc, to: 1 });
                ops.push(Op::Call { h: 1, id: g.id(), work: vec![] });
            }
        }
        ops.push(Op::Yield(4));
        ops.push(Op::Call { h: 0, id: g.id(), work: vec![] });
        ops.push(Op::Send { h: 0, id: g.id(), work: vec![] });
        ops.push(Op::AlreadyRunning { svc });
        ops.push(Op::Stop { h: 0 });
        ops.push(Op::Await { h: 0, on_clone: true });
        ops.push(Op::AlreadyRunning { svc });
        ops.push(Op::FromRegistry { svc, to: 2 });
        ops.push(Op::Call { h: 2, id: g.id(), work: vec![] });
    } else {
        let entry = ENTRIES[e];
        let mut spec = ActorSpec { entry, ..Default::default() };
        if entry.builder() {
            spec.mailbox = g.pick(&[None, Some(1), Some(4)]);
        }
        if entry.on_stream() {
            let n = g.below(4);
            let script: Vec<StreamItem> = (0..n).map(|_| StreamItem::Item(g.id())).collect();
            spec.stream = Some(StreamSpec { script, ends: false });
            spec.restart = Restart::NonRestartable;
        } else if entry.builder() {
            spec.restart = g.pick(&[Restart::Default, Restart::Recreate, Restart::NonRestartable]);
        }
        if entry == Entry::BuilderRegister {
            spec.tag = Tag::SvcA;
            // (the harness' Default for service tags uses the default-instance spec; keep the value)
            if spec.restart == Restart::Recreate {
                spec.restart = Restart::Default;
            }
        }
        let timers = g.chance(1, 3);
        if timers {
            spec.on_start.push(Work::Timer(TimerSpec { id: 0, kind: g.pick(&[TimerKind::Interval, TimerKind::IntervalWith]), period, handler_sleep: 0 }));
        }
        let owning = entry.owning();
        let restartable = !entry.on_stream();
        sc.actors.push(spec);
        ops.push(Op::Spawn { spec: 0, slot: 0 });
        // the spawn call has returned; let the system run, then the actor must answer
        ops.push(Op::Yield(g.range(2, 6) as u32));
        ops.push(Op::Call { h: 0, id: g.id(), work: vec![] });
        ops.push(Op::Send { h: 0, id: g.id(), work: vec![] });
        ops.push(Op::Ping { h: 0 });
        if timers {
            ops.push(Op::Sleep(period * g.range(3, 5) + period / 2));
            ops.push(Op::Call { h: 0, id: g.id(), work: vec![] });
        }
        let shapes: Vec<u32> = if owning { vec![0, 1, 2, 3, 4, 5, 6, 8, 9, 10, 11, 12, 13, 14] } else if restartable { vec![0, 5, 6, 7] } else { vec![0, 5, 7] };
        match g.pick(&shapes) {
            0 => {
                ops.push(Op::Stop { h: 0 });
                ops.push(Op::Await { h: 0, on_clone: true });
                ops.push(Op::Call { h: 0, id: g.id(), work: vec![] });
            }
            1 => {
                // drop the owning address (no detach) and carry on through a plain address
                ops.push(Op::ToAddr { h: 0, to: 1 });
                ops.push(Op::Drop { h: 0 });
                ops.push(Op::Yield(g.range(2, 5) as u32));
                ops.push(Op::Call { h: 1, id: g.id(), work: vec![] });
                ops.push(Op::Send { h: 1, id: g.id(), work: vec![] });
                ops.push(Op::Stop { h: 1 });
                ops.push(Op::Await { h: 1, on_clone: true });
            }
            2 => {
                ops.push(Op::Detach { h: 0, to: 1 });
                ops.push(Op::Yield(3));
                ops.push(Op::Call { h: 1, id: g.id(), work: vec![] });
                ops.push(Op::Stop { h: 1 });
                ops.push(Op::Await { h: 1, on_clone: true });
            }
            3 => {
                ops.push(Op::Send { h: 0, id: g.id(), work: vec![] });
                ops.push(Op::Stop { h: 0 });
                ops.push(Op::Join { h: 0 });
                ops.push(Op::Join { h: 0 });
            }
            4 => {
                ops.push(Op::Call { h: 0, id: g.id(), work: vec![] });
                if g.chance(1, 2) { ops.push(Op::Consume { h: 0 }) } else { ops.push(Op::ConsumeSync { h: 0 }) }
            }
            5 => {
                // last strong handle dropped: drains, stops; the weak handle stops upgrading
                ops.push(Op::Send { h: 0, id: g.id(), work: vec![] });
                ops.push(Op::Downgrade { h: 0, to: 1 });
                ops.push(Op::Drop { h: 0 });
                ops.push(Op::Sleep(3));
                ops.push(Op::Upgrade { h: 1, to: 2 });
                ops.push(Op::QueryStopped { h: 1 });
            }
            14 => {
                // a join future created before the owning address is detached, awaited after the
                // actor was stopped through the detached address
                ops.push(Op::JoinStart { h: 0 });
                ops.push(Op::Detach { h: 0, to: 1 });
                ops.push(Op::Send { h: 1, id: g.id(), work: vec![] });
                ops.push(Op::Stop { h: 1 });
                ops.push(Op::JoinFinish);
            }
            13 => {
                // a join future that had claimed the task and is dropped right after the task
                // has finished (woken, not polled again) takes the value with it: the next join
                // yields None on every runtime
                ops.push(Op::JoinStart { h: 0 });
                ops.push(Op::JoinPoll);
                ops.push(Op::Stop { h: 0 });
                ops.push(Op::Await { h: 0, on_clone: true });
                ops.push(Op::JoinDiscard);
                ops.push(Op::Join { h: 0 });
            }
            12 => {
                // two joins pending at the same time in different tasks both resolve
                // (the first one is polled by the client before it moves to its own task, so
                // that who gets the value does not depend on the schedule)
                ops.push(Op::JoinStart { h: 0 });
                ops.push(Op::JoinStart { h: 0 });
                ops.push(Op::JoinPoll);
                ops.push(Op::JoinSpawn);
                ops.push(Op::Stop { h: 0 });
                ops.push(Op::JoinFinish);
                ops.push(Op::JoinCollect);
            }
            10 => {
                // a join future polled once and kept does not block a later join
                ops.push(Op::JoinStart { h: 0 });
                ops.push(Op::JoinPoll);
                ops.push(Op::Stop { h: 0 });
                ops.push(Op::Await { h: 0, on_clone: true });
                ops.push(Op::Join { h: 0 });
                ops.push(Op::JoinFinish);
            }
            11 => {
                // a join future that is never polled takes nothing away
                ops.push(Op::JoinStart { h: 0 });
                ops.push(Op::JoinDiscard);
                ops.push(Op::Send { h: 0, id: g.id(), work: vec![] });
                ops.push(Op::Stop { h: 0 });
                ops.push(Op::Join { h: 0 });
            }
            8 => {
                // a join that is begun and abandoned is not a stop request
                ops.push(Op::CancelAfter { polls: 1, op: Box::new(Op::Join { h: 0 }) });
                ops.push(Op::Yield(3));
                ops.push(Op::Call { h: 0, id: g.id(), work: vec![] });
                ops.push(Op::Stop { h: 0 });
                ops.push(Op::Await { h: 0, on_clone: true });
            }
            9 => {
                // the join future outlives the owning address
                ops.push(Op::Send { h: 0, id: g.id(), work: vec![] });
                if g.chance(1, 2) {
                    ops.push(Op::Stop { h: 0 });
                }
                ops.push(Op::DropThenJoin { h: 0 });
            }
            6 => {
                ops.push(Op::Restart { h: 0 });
                ops.push(Op::Call { h: 0, id: g.id(), work: vec![] });
                ops.push(Op::Stop { h: 0 });
                ops.push(Op::Await { h: 0, on_clone: true });
            }
            _ => {
                ops.push(Op::Send { h: 0, id: g.id(), work: vec![Work::CtxStop] });
                ops.push(Op::Await { h: 0, on_clone: true });
            }
        }
    }
    sc.clients.push(ClientSpec { ops });
    // three schedules per program: canonical, reverse, seeded random
    let seed = g.rng.next();
    sc.sched = SchedSpec {
        seed: simrt::mix(seed, variant),
        policy: match variant {
            0 => PolicySpec::LowestId,
            1 => PolicySpec::HighestId,
            _ => PolicySpec::Uniform,
        },
        racing_per_mille: 0,
        spurious_per_mille: 0,
        decisions: None,
    };
    sc.settle_ns = 40;
    sc
}

fn entry_of(v: &View) -> String {
    if !(v.sc.profile.is_empty() || v.sc.profile == P) {
        return format!("profile-{}", v.sc.profile);
    }
    match v.sc.clients[0].ops.first() {
        Some(Op::Spawn { .. }) => format!("{:?}", v.sc.actors[0].entry),
        Some(Op::FromRegistry { .. }) => "from_registry".into(),
        Some(Op::Setup { .. }) => "setup".into(),
        _ => "other".into(),
    }
}

/// canonical, schedule- and runtime-independent description of what the program observed
pub fn outcome(v: &View) -> String {
    let mut s = String::new();
    // stream items interleave with mailbox messages as the select! tie-break decides: each source
    // is recorded in its own order, and counts that mix both are left out
    let stream = v.sc.actors.first().is_some_and(|a| a.entry.on_stream());
    let no_items = |xs: &Vec<u64>| -> Vec<u64> {
        let items: Vec<u64> = v.cbs.iter().filter(|c| c.cb == Cb::Item).map(|c| c.id).collect();
        xs.iter().copied().filter(|x| !items.contains(x)).collect()
    };
    for o in v.ops.iter().filter(|o| !matches!(o.inner, Op::Yield(_) | Op::Sleep(_))) {
        let r = match o.res {
            None => "PENDING".to_string(),
            Some(Res::Reply(r)) if stream => format!("Reply(inst={},inc={})", r.inst, r.inc),
            Some(Res::Reply(r)) => format!("Reply(inst={},inc={},n={})", r.inst, r.inc, r.n_entered),
            Some(Res::Joined(Some(j))) => format!("Joined(inst={},entered={:?},stopped={})", j.inst, no_items(&j.entered), j.stopped_mark),
            Some(Res::Err(_)) => "Err".to_string(),
            Some(x) => format!("{x:?}"),
        };
        s.push_str(&format!("{}:{}={};", o.idx, crate::props::c02::op_name(o.inner), r));
    }
    for a in v.actors.values() {
        let Some(aidx) = a.aidx else { continue };
        s.push_str(&format!("|actor{aidx}:"));
        for c in v.cbs_of(a).filter(|c| c.cb != Cb::Item) {
            s.push_str(&format!("{:?}/{}{};", c.cb, if c.cb == Cb::Tick { c.id & 0xffff } else { c.id }, if c.exit.is_some() { "" } else { "!" }));
        }
        // (how many ready items are handled before a stop wins the tie-break is schedule dependent:
        // items are checked by the oracle - in order, exactly once - not recorded)
        s.push_str(&format!("end={:?}", a.how));
    }
    s
}

pub fn check(v: &View) -> Vec<Violation> {
    let mut out = vec![];
    let entry = entry_of(v);
    let sig = format!("rt={FLAVOUR}:entry={entry}");
    if v.sc.actors[0].entry == Entry::BuilderStreamSpawn {
        crate::log::probe("c18_stream_builder_spawn");
    }
    if entry == "from_registry" || entry == "setup" || v.sc.actors[0].entry == Entry::BuilderRegister {
        crate::log::probe("c18_registry_entry");
    }
    let own_profile = v.sc.profile.is_empty() || v.sc.profile == P;
    // every spawn entry point yields an actor that keeps running after the call has returned
    for (i, o) in v.ops.iter().enumerate().filter(|_| own_profile) {
        let spawned = matches!((o.inner, o.res), (Op::Spawn { .. }, Some(Res::Spawned { .. })) | (Op::FromRegistry { .. }, Some(Res::Handle(true))));
        if !spawned {
            continue;
        }
        let slot = match o.inner {
            Op::Spawn { slot, .. } => *slot,
            Op::FromRegistry { to, .. } => *to,
            _ => continue,
        };
        // the next call through that slot, before any stop
        for c in v.ops.iter().skip(i + 1) {
            match c.inner {
                Op::Stop { .. } | Op::Drop { .. } | Op::Detach { .. } | Op::Consume { .. } | Op::ConsumeSync { .. } | Op::Restart { .. } => break,
                Op::Call { h, .. } if *h == slot => {
                    crate::log::probe("c18_alive_after_spawn_checked");
                    if !matches!(c.res, Some(Res::Reply(_))) {
                        out.push(violation(P, "dead-after-spawn", &sig, format!("[{FLAVOUR}] the actor obtained through {entry} did not answer the first call after the spawn call had returned: {:?}", c.res)));
                    }
                    break;
                }
                _ => {}
            }
        }
    }
    // dropping an OwningAddr is not a stop request: the actor goes on as long as other handles exist
    let prog = &v.sc.clients[0].ops;
    if own_profile && prog.iter().any(|o| matches!(o, Op::ToAddr { .. })) && prog.iter().any(|o| matches!(o, Op::Drop { h: 0 })) {
        crate::log::probe("c18_owning_dropped");
        if let Some(c) = v.ops.iter().find(|o| matches!(o.inner, Op::Call { h: 1, .. })) {
            if !matches!(c.res, Some(Res::Reply(_))) {
                out.push(violation(P, "dropping-owning-addr-kills-actor", &sig, format!("[{FLAVOUR}] after the OwningAddr was dropped (not detached) the actor no longer answered through its plain address: {:?}", c.res)));
            }
        }
    }
    // a task that the library cancels by dropping its handle never terminates gracefully
    for a in v.actors.values() {
        if a.cancel_requested.is_some_and(|(_, injected)| !injected) {
            out.push(violation(P, "actor-task-cancelled-by-handle-drop", &sig, format!("[{FLAVOUR}] actor {:?}: its task was cancelled because a task handle was dropped (entry {entry})", a.aidx)));
        }
    }
    // the reference oracles hold on this runtime as they do on the others (each oracle on the
    // profiles it is sound on: its own and its `extra_profiles`)
    let relabel = |x: Violation, out: &mut Vec<Violation>, from: &str| {
        out.push(violation(P, &format!("{from}-{}", x.rule), &sig, format!("[{FLAVOUR}] {}", x.detail)));
    };
    let profile = v.sc.profile.as_str();
    let own = profile.is_empty() || profile == P;
    for (name, def) in [
        ("c01", super::c01::def()),
        ("c02", super::c02::def()),
        ("c03", super::c03::def()),
        ("c04", super::c04::def()),
        ("c05", super::c05::def()),
        ("c07", super::c07::def()),
        ("c10", super::c10::def()),
        ("c12", super::c12::def()),
        ("c13", super::c13::def()),
        ("c17", super::c17::def()),
    ] {
        let applies = if own {
            matches!(name, "c02" | "c03" | "c04" | "c05" | "c10" | "c17")
        } else {
            def.id == profile || def.extra_profiles.contains(&profile)
        };
        if applies {
            for x in (def.check)(v) {
                relabel(x, &mut out, name);
            }
        }
    }
    out
}

pub fn nontrivial(_v: &View) -> bool {
    true
}
