//! C05 — strong handles keep an actor alive, weak never do; last drop drains, then stops.
use super::PropDef;
use crate::analysis::*;
use crate::census::census;
use crate::log::*;
use crate::model::*;
use crate::sgen::*;

const P: &str = "C05";

pub fn def() -> PropDef {
    PropDef {
        id: P,
        level: "exploration",
        generate,
        check,
        nontrivial,
        rule: "handle-manipulation programs of 1-3 clients (clone, downgrade, upgrade, conversions between all kinds, move between clients, drop in any order, drop-then-join) interleaved with submissions, with interval / interval_with / delayed timers and a broker subscription active and, in sub-families, the service registry or a parent's child list as the only strong holder; no stop request, no fault; x seeded schedules; oracle = strong-handle census replayed from the log vs. actor liveness, plus task census at quiescence; non-trivial = the last strong handle went away while an accepted message was still unhandled or while a weak handle, timer or subscription existed; distinct = distinct order of client-op and callback events",
        needed_probes: &["c05_alive_with_handles_checked", "c05_last_drop_drain_checked", "c05_upgrade_after_last_drop", "c05_died_before_weak_dropped", "c05_registry_holder", "c05_child_list_holder", "c05_prompt_termination_checked"],
        quick_runs: 200_000,
        thorough_runs: 2_000_000,
        block: 1,
        flavours: &["tokio"],
        outcome: None,
        extra_profiles: &[],
        adapt: None,
    }
}

fn manipulate(g: &mut G, sl: &mut Slots, c: usize, nclients: usize, ops: &mut Vec<Op>, gifts: &mut Vec<(usize, Slot, HKind)>, gift_no: &mut usize) {
    let any = sl.any();
    if any.is_empty() {
        return;
    }
    let s = g.pick(&any);
    let k = sl.get(s).unwrap();
    let to = {
        let f = sl.free();
        if f >= 8 { g.below(8) as Slot } else { f }
    };
    match g.below(10) {
        0 | 1 => {
            // clone
            ops.push(Op::Clone { h: s, to });
            sl.set(to, Some(if k == HKind::Owning { HKind::Addr } else { k }));
        }
        2 => {
            let nk = match k {
                HKind::Addr | HKind::Owning => HKind::WeakAddr,
                HKind::Sender => HKind::WeakSender,
                HKind::Caller => HKind::WeakCaller,
                _ => return,
            };
            ops.push(Op::Downgrade { h: s, to });
            sl.set(to, Some(nk));
        }
        3 => {
            let nk = match k {
                HKind::WeakAddr => HKind::Addr,
                HKind::WeakSender => HKind::Sender,
                HKind::WeakCaller => HKind::Caller,
                _ => return,
            };
            ops.push(Op::Upgrade { h: s, to });
            // may fail at run time; then later ops on `to` are skipped
            sl.set(to, Some(nk));
        }
        4 | 5 => {
            if !matches!(k, HKind::Addr | HKind::Owning) {
                return;
            }
            let nk = g.pick(&[HKind::Sender, HKind::Caller, HKind::WeakSender, HKind::WeakCaller]);
            ops.push(derive(nk, s, to));
            sl.set(to, Some(nk));
        }
        6 | 7 => {
            if s == PRIMARY && k == HKind::Owning && g.chance(1, 2) {
                ops.push(Op::Detach { h: s, to });
                sl.set(s, None);
                sl.set(to, Some(HKind::Addr));
            } else {
                ops.push(Op::Drop { h: s });
                sl.set(s, None);
            }
        }
        8 => {
            if nclients > 1 && k != HKind::Owning {
                let mut other = g.below(nclients as u64 - 1) as usize;
                if other >= c {
                    other += 1;
                }
                let their = 10 + *gift_no;
                *gift_no += 1;
                ops.push(Op::Give { h: s, client: other as u32, to: their });
                sl.set(s, None);
                gifts.push((other, their, k));
            }
        }
        _ => ops.push(crate::props::c01::submission(g, k, s)),
    }
}

pub fn generate(g: &mut G, index: u64) -> Scenario {
    if index % 8 == 7 {
        return generate_registry(g);
    }
    if index % 8 == 3 {
        // sub-family: a parent's child list is the (only) strong holder - C16's tree programs,
        // judged here by C16's rule "a child does not end while its parent runs"
        let mut sc = super::c16::generate(g, index);
        sc.profile = "C16".to_string(); // (oracles applied across profiles go by this tag)
        return sc;
    }
    let owning = g.chance(1, 2);
    let mut spec = ActorSpec {
        mailbox: g.mailbox(),
        entry: if owning { Entry::BuilderSpawnOwning } else { Entry::BuilderSpawn },
        ..Default::default()
    };
    if g.chance(1, 4) {
        // a `started()` that takes a while: handles may all be gone before it has returned
        spec.on_start.push(if g.chance(1, 2) { Work::Sleep(g.range(10, 80)) } else { Work::Yield(g.range(1, 3) as u32) });
    }
    for t in 0..g.below(3) {
        spec.on_start.push(Work::Timer(TimerSpec {
            id: t as u32,
            kind: g.pick(&[TimerKind::Interval, TimerKind::IntervalWith, TimerKind::DelayedSend, TimerKind::DelayedExec]),
            period: g.range(3, 40),
            handler_sleep: 0,
        }));
    }
    if g.chance(1, 4) {
        spec.on_start.push(Work::Subscribe(1));
    }
    if g.chance(1, 6) {
        // a stream-attached actor whose stream never ends: the last drop must end it all the same
        spec.entry = g.pick(&[Entry::SpawnOnStream, Entry::SpawnOwningOnStream, Entry::BuilderStreamSpawnOwning, Entry::BuilderWithStreamSpawn]);
        spec.restart = Restart::NonRestartable;
        let script: Vec<StreamItem> = (0..g.below(4)).map(|_| StreamItem::Item(g.id())).collect();
        spec.stream = Some(StreamSpec { script, ends: false });
    }
    let kinds = [HKind::Addr, HKind::Sender, HKind::Caller, HKind::WeakAddr, HKind::WeakSender, HKind::WeakCaller];
    let nclients = g.range(1, 3) as usize;
    let spec_restartable = spec.restart != Restart::NonRestartable && spec.stream.is_none();
    let mut fam = one_actor(g, spec, nclients, &kinds, (0, 2));
    let mut gifts: Vec<(usize, Slot, HKind)> = vec![];
    let mut progs: Vec<Vec<Op>> = vec![vec![]; nclients];
    let rounds = g.range(2, 10);
    let mut gift_no = 0usize;
    for _ in 0..rounds {
        for c in 0..nclients {
            if g.chance(2, 3) {
                let mut sl = fam.slots[c].clone();
                manipulate(g, &mut sl, c, nclients, &mut progs[c], &mut gifts, &mut gift_no);
                fam.slots[c] = sl;
                if g.chance(1, 4) {
                    let avail = fam.slots[c].any();
                    if !avail.is_empty() {
                        let s = g.pick(&avail);
                        let k = fam.slots[c].get(s).unwrap();
                        progs[c].push(crate::props::c01::submission(g, k, s));
                    }
                }
                g.maybe_yield(&mut progs[c]);
            }
        }
        // deliver gifts
        for (other, their, k) in gifts.drain(..) {
            progs[other].push(Op::Take { to: their });
            fam.slots[other].set(their, Some(k));
        }
    }
    if g.chance(1, 5) {
        progs[0].push(Op::Publish { topic: 1, id: g.id(), path: PublishPath::Static });
    }
    // a restart is not a stop: sometimes one is still queued when the last handle goes away
    if spec_restartable && g.chance(1, 5) {
        for c in 0..nclients {
            if let Some(s) = fam.slots[c].of_kind(&[HKind::Addr, HKind::Owning]).first().copied() {
                progs[c].push(Op::Restart { h: s });
                break;
            }
        }
    }
    // final phase: (mostly) all clients let go of every strong handle, then probe the weak ones
    let all_let_go = g.chance(2, 3);
    for c in 0..nclients {
        if all_let_go || g.chance(1, 2) {
            // a few sends right before the drop, so that the mailbox is not empty at the last drop
            let strong_slots = fam.slots[c].of_kind(&[HKind::Addr, HKind::Sender, HKind::Owning]);
            if let Some(s) = strong_slots.first().copied() {
                for _ in 0..g.below(3) {
                    progs[c].push(Op::Send { h: s, id: g.id(), work: g.light_work() });
                }
                if g.chance(1, 6) {
                    // a subscription request that may still be on its way to the broker
                    progs[c].push(Op::Send { h: s, id: g.id(), work: vec![Work::Subscribe(1)] });
                    progs[c].push(Op::Yield(g.range(1, 5) as u32));
                }
            }
            for s in fam.slots[c].of_kind(&[HKind::Addr, HKind::Sender, HKind::Caller]) {
                if fam.slots[c].get(s) == Some(HKind::Sender) && g.chance(1, 3) {
                    // the send future outlives its `Sender` (on a full bounded mailbox it is
                    // still parked when the handle is gone): a future is not a handle
                    progs[c].push(Op::SendThenDrop { h: s, id: g.id(), work: vec![] });
                } else {
                    progs[c].push(Op::Drop { h: s });
                }
                fam.slots[c].set(s, None);
            }
            if let Some(s) = fam.slots[c].of_kind(&[HKind::Owning]).first().copied() {
                if all_let_go && g.chance(1, 2) {
                    progs[c].push(Op::DropThenJoin { h: s });
                } else {
                    progs[c].push(Op::Drop { h: s });
                }
                fam.slots[c].set(s, None);
            }
            match g.below(3) {
                0 => progs[c].push(Op::Sleep(g.range(5, 60))),
                1 => progs[c].push(Op::Yield(g.range(1, 4) as u32)),
                _ => {} // probe the weak handles at once
            }
            for s in fam.slots[c].of_kind(&[HKind::WeakAddr, HKind::WeakSender, HKind::WeakCaller]) {
                let k = fam.slots[c].get(s).unwrap();
                match g.below(3) {
                    0 => progs[c].push(Op::Upgrade { h: s, to: 7 }),
                    1 => progs[c].push(crate::props::c01::submission(g, k, s)),
                    _ => {}
                }
                // let go of an accidentally successful upgrade again
                progs[c].push(Op::Drop { h: 7 });
            }
        }
    }
    for c in 0..nclients {
        fam.sc.clients[c].ops.extend(progs[c].drain(..));
    }
    fam.sc.sched = g.sched(true);
    fam.sc.settle_ns = 600;
    fam.sc
}

/// sub-family: the service registry is the only strong holder
fn generate_registry(g: &mut G) -> Scenario {
    let mut sc = Scenario::empty(0);
    let mut spec = ActorSpec { tag: Tag::SvcA, entry: Entry::Spawn, ..Default::default() };
    if g.chance(1, 2) {
        spec.on_start.push(Work::Timer(TimerSpec { id: 0, kind: TimerKind::Interval, period: g.range(3, 20), handler_sleep: 0 }));
    }
    let via_builder = g.chance(1, 3);
    if via_builder {
        spec.entry = Entry::BuilderRegister;
        spec.mailbox = g.mailbox();
    }
    sc.actors.push(spec);
    let mut ops = vec![Op::Spawn { spec: 0, slot: 0 }];
    if !via_builder {
        ops.push(Op::Register { h: 0, replaced_to: 5 });
    }
    ops.push(Op::Downgrade { h: 0, to: 1 });
    for _ in 0..g.below(3) {
        ops.push(Op::Send { h: 0, id: g.id(), work: g.light_work() });
    }
    ops.push(Op::Drop { h: 0 });
    ops.push(Op::Sleep(g.range(5, 50)));
    ops.push(Op::Upgrade { h: 1, to: 2 });
    ops.push(Op::Call { h: 2, id: g.id(), work: vec![] });
    ops.push(Op::Drop { h: 2 });
    sc.clients.push(ClientSpec { ops });
    sc.sched = g.sched(true);
    sc.settle_ns = 300;
    sc
}

fn is_tree(sc: &Scenario) -> bool {
    sc.actors.iter().any(|a| a.on_start.iter().any(|w| matches!(w, Work::Child { .. })))
        || sc.clients.iter().any(|c| c.ops.iter().any(|o| matches!(o, Op::Send { work, .. } | Op::Call { work, .. } if work.iter().any(|w| matches!(w, Work::Child { .. })))))
}

pub fn check(v: &View) -> Vec<Violation> {
    let mut out = vec![];
    if is_tree(v.sc) {
        crate::log::probe("c05_child_list_holder");
        return super::c16::check(v)
            .into_iter()
            .filter(|x| x.rule == "child-ended-before-parent")
            .map(|x| violation(P, "child-list-does-not-keep-alive", "", x.detail))
            .collect();
    }
    for a in v.actors.values() {
        let Some(aidx) = a.aidx else { continue };
        if aidx >= AIDX_SVC_A || v.actors_of(aidx).len() != 1 {
            continue; // brokers, default service instances
        }
        let spec = v.sc.spec_of(aidx);
        // (a stream-attached actor also ends with its stream: then the census does not apply)
        let stream_ended = v.out.log.iter().any(|r| matches!(&r.ev, Ev::StreamEnd { aidx: x } if *x == aidx));
        if stream_ended || v.fault_injected(a) || !v.stop_requests(aidx).is_empty() {
            continue;
        }
        // registry-derived handles have unknown identity; skip actors of scenarios that use them
        if v.ops.iter().any(|o| matches!(o.inner, Op::FromRegistry { .. } | Op::TryFromRegistry { .. } | Op::Unregister { .. } | Op::Replace { .. }) && !o.skipped()) {
            continue;
        }
        let cen = census(v, aidx);
        let registry_held = spec.tag != Tag::Plain;
        if registry_held && cen.max() > 0 {
            crate::log::probe("c05_registry_holder");
        }
        // (the `stopped()` that nothing follows: the one of a restart is not a termination)
        let stopped_enter = v.cbs_of(a).last().filter(|c| c.cb == Cb::Stopped).map(|c| c.enter);
        let term = stopped_enter.or(a.dead);
        // (i) no termination while a strong handle certainly exists
        if let Some(t) = term {
            crate::log::probe("c05_alive_with_handles_checked");
            let n = cen.certain_at(t);
            if n > 0 {
                out.push(violation(P, "terminated-with-strong-handles", &format!("{:?}", spec.tag), format!("actor {aidx}: terminated (stopped/dead at seq {t}) although {n} strong handle(s) existed and nobody had asked it to stop; census {:?}", cen.points)));
            }
        } else if v.out.outcome.quiescent_at_end {
            // still alive at the very end although everything was dropped
            if v.sc.drop_handles {
                out.push(violation(P, "alive-after-all-handles-dropped", "", format!("actor {aidx}: all handles were dropped in the epilogue but the actor never terminated")));
            }
        }
        let t0 = cen.t0();
        let dropped = v.phase_seq(Phase::HandlesDropped);
        if let Some(t0) = t0 {
            // (ii) drains what it had accepted, then stops gracefully
            if a.dead.is_some() {
                crate::log::probe("c05_last_drop_drain_checked");
                for o in v.ops.iter().filter(|o| o.target == Some(aidx) && matches!(o.inner, Op::Send { .. } | Op::SendThenDrop { .. } | Op::ForceSend { .. }) && matches!(o.res, Some(Res::Ok))) {
                    if o.end.unwrap() < t0 && spec.effective_timeout().is_none() {
                        let id = o.msg_id().unwrap();
                        if !v.cbs_of(a).any(|c| c.id == id && c.cb == Cb::Msg && c.exit.is_some()) {
                            out.push(violation(P, "accepted-message-lost-at-last-drop", &format!("{:?}", o.hk.unwrap()), format!("actor {aidx}: message {id} accepted at seq {} before the last strong handle went away at {t0} was never handled", o.end.unwrap())));
                        }
                    }
                }
                if !v.graceful(a) {
                    out.push(violation(P, "last-drop-not-graceful", "", format!("actor {aidx}: after the last strong handle went away at seq {t0} the actor ended without a completed stopped() (how {:?})", a.how)));
                }
            }
            // weak handles, timers, subscriptions must not keep it alive: it has to be gone before
            // the epilogue drops the weak handles (the settle phase gives it ample virtual time)
            if t0 < v.phase_seq(Phase::ClientsDone) && v.out.outcome.cap_phase == 0 {
                crate::log::probe("c05_died_before_weak_dropped");
                if a.dead.is_none_or(|d| d > dropped) && !cen.lib_temporaries_possible && !cen.maybe_at(t0) && !v.busy_at(a, dropped) {
                    out.push(violation(P, "kept-alive-without-strong-handle", "", format!("actor {aidx}: the last strong handle went away at seq {t0} but the actor was still running when the weak handles were dropped at {dropped} (dead {:?})", a.dead)));
                }
            }
            // ... and promptly: on the ideal clock an idle actor whose last strong handle goes away
            // notices in the same virtual instant (nothing but a hidden strong reference - a timer,
            // a subscription, the context - could make it linger)
            if v.sc.sched.racing_per_mille == 0 && !cen.lib_temporaries_possible && !cen.maybe_at(t0) && !v.busy_at(a, t0) && v.out.outcome.cap_phase == 0 {
                crate::log::probe("c05_prompt_termination_checked");
                let t0_vt = v.vtime_at(t0);
                // (termination begins when stopped() is entered; stopped() itself may take time)
                let term_vt = v.cbs_of(a).filter(|c| c.cb == Cb::Stopped && c.enter > t0).map(|c| c.enter_vt).next().or(a.dead.map(|_| a.dead_vt));
                if term_vt.is_none_or(|t| t > t0_vt) {
                    out.push(violation(P, "lingered-after-last-drop", "", format!("actor {aidx}: idle when its last strong handle went away at seq {t0} (t={t0_vt}), but it only began to terminate at t={term_vt:?} (dead {:?}): something other than a strong handle kept it alive", a.dead)));
                }
            }
            // join after the last drop yields the value
            for o in v.ops.iter().filter(|o| o.target == Some(aidx) && matches!(o.inner, Op::DropThenJoin { .. }) && o.ended() && !o.skipped()) {
                if !matches!(o.res, Some(Res::Joined(Some(_)))) {
                    out.push(violation(P, "join-after-last-drop-none", "", format!("actor {aidx}: drop-then-join returned {:?} although the actor ended gracefully after its last handle was dropped", o.res)));
                }
            }
        }
        // (iii) upgrades
        for o in v.ops.iter().filter(|o| o.target == Some(aidx) && matches!(o.inner, Op::Upgrade { .. }) && o.ended() && !o.skipped()) {
            let got = matches!(o.res, Some(Res::Handle(true)));
            let certain = cen.certain_at(o.begin);
            if got && certain == 0 && !cen.maybe_at(o.begin) && !cen.lib_temporaries_possible {
                out.push(violation(P, "upgrade-without-strong-handle", &format!("{:?}", o.hk.unwrap()), format!("actor {aidx}: upgrade at seq {} succeeded although no strong handle existed; census {:?}", o.begin, cen.points)));
            }
            if let Some(t0) = t0 {
                if o.begin > t0 {
                    crate::log::probe("c05_upgrade_after_last_drop");
                }
            }
        }
    }
    // (iv) task census at quiescence
    if v.out.outcome.quiescent_at_end && v.sc.drop_handles {
        for (id, kind) in &v.out.alive_at_end {
            if *kind == KIND_ACTOR || *kind == KIND_LIB {
                let injected = v.any_fault();
                if !injected {
                    out.push(violation(P, "task-alive-at-quiescence", if *kind == KIND_ACTOR { "actor" } else { "timer" }, format!("task {id} (kind {kind}) is still alive although every handle was dropped and the system is quiescent")));
                }
            }
        }
    }
    out
}

pub fn nontrivial(v: &View) -> bool {
    for a in v.actors.values() {
        let Some(aidx) = a.aidx else { continue };
        if aidx >= AIDX_SVC_A {
            continue;
        }
        let cen = census(v, aidx);
        let Some(t0) = cen.t0() else { continue };
        if t0 >= v.phase_seq(Phase::HandlesDropped) {
            continue;
        }
        // a message accepted before t0 and handled after it, or a timer / weak handle around
        let backlog = v.ops.iter().any(|o| {
            o.target == Some(aidx)
                && matches!(o.inner, Op::Send { .. } | Op::SendThenDrop { .. } | Op::ForceSend { .. })
                && matches!(o.res, Some(Res::Ok))
                && o.end.unwrap() < t0
                && v.cbs_of(a).any(|c| Some(c.id) == o.msg_id() && c.enter > t0)
        });
        let timers = v.out.log.iter().any(|r| matches!(&r.ev, Ev::TimerReg { aidx: x, .. } if *x == aidx));
        let weak = v.ops.iter().any(|o| o.target == Some(aidx) && matches!(o.inner, Op::Upgrade { .. } | Op::Downgrade { .. } | Op::ToWeakSender { .. } | Op::ToWeakCaller { .. }));
        if backlog || timers || weak {
            return true;
        }
    }
    false
}
