//! C03 — lifecycle callbacks follow the started / handle* / [finished] stopped protocol.
use super::PropDef;
use super::c02::CAUSES;
use crate::analysis::*;
use crate::log::*;
use crate::model::*;
use crate::sgen::*;

const P: &str = "C03";

pub fn def() -> PropDef {
    PropDef {
        id: P,
        level: "exploration",
        generate,
        check,
        nontrivial,
        rule: "termination cause (13 kinds) x mailbox kind x restart strategy (default / recreate / non-restartable) x plain or stream-attached (5 stream entry points) with restart requests through Addr::restart and Context::restart, timers registered in started and messages still queued at termination, x seeded schedules; oracle = per-incarnation protocol automaton over the callback trace; non-trivial = the actor terminated with an accepted message or submitted tick unhandled, or went through a restart; distinct = distinct order of client-op and callback events",
        needed_probes: &["c03_restart_seen", "c03_stream_actor", "c03_start_failed", "c03_graceful_end_checked"],
        quick_runs: 200_000,
        thorough_runs: 2_000_000,
        block: 1,
        flavours: &["tokio"],
        outcome: None,
        extra_profiles: &["C01", "C02", "C04", "C05", "C06", "C07", "C08", "C09", "C10", "C11", "C12", "C13", "C14", "C16", "C17"],
        adapt: None,
    }
}

pub fn generate(g: &mut G, _index: u64) -> Scenario {
    let stream = g.chance(1, 4);
    let mut cause = g.pick(&CAUSES);
    let restart = g.pick(&[Restart::Default, Restart::Default, Restart::Recreate, Restart::NonRestartable]);
    let mut spec = ActorSpec { mailbox: g.mailbox(), restart, stopped_yields: g.below(2) as u32, ..Default::default() };
    if g.chance(1, 6) {
        // a handler timeout is no limit for the life-cycle callbacks
        spec.timeout = Some(g.range(3, 15));
        spec.stopped_sleep = g.range(20, 40);
        if g.chance(1, 2) {
            spec.on_start.push(Work::Sleep(g.range(20, 40)));
        }
    }
    if stream {
        spec.entry = g.pick(&[
            Entry::SpawnOnStream,
            Entry::SpawnOwningOnStream,
            Entry::BuilderStreamSpawnOwning,
            Entry::BuilderStreamSpawnOwning,
            Entry::BuilderWithStreamSpawn,
        ]);
        spec.restart = Restart::NonRestartable;
        let n = g.below(5);
        let mut script = vec![];
        for _ in 0..n {
            if g.chance(1, 4) {
                script.push(StreamItem::Delay(g.range(1, 10)));
            }
            script.push(StreamItem::Item(g.id()));
        }
        spec.stream = Some(StreamSpec { script, ends: g.chance(1, 2) });
        if cause == Cause::TimeoutFail {
            cause = Cause::Stop; // timeouts do not apply to stream-attached loops
        }
    } else {
        spec.entry = if g.chance(1, 2) { Entry::BuilderSpawnOwning } else { Entry::BuilderSpawn };
    }
    for t in 0..g.below(3) {
        spec.on_start.push(Work::Timer(TimerSpec {
            id: t as u32,
            kind: g.pick(&[TimerKind::Interval, TimerKind::IntervalWith, TimerKind::DelayedSend]),
            period: g.range(2, 20),
            handler_sleep: 0,
        }));
    }
    if g.chance(1, 4) {
        spec.on_start.push(Work::Yield(1));
    }
    let kinds: &[HKind] = if cause == Cause::LastDrop {
        &[HKind::WeakSender, HKind::WeakCaller, HKind::WeakAddr]
    } else {
        &[HKind::Addr, HKind::Sender, HKind::Caller, HKind::WeakSender, HKind::WeakCaller]
    };
    let nclients = g.range(1, 3) as usize;
    let mut fam = one_actor(g, spec, nclients, kinds, (1, 2));
    fill_submissions(g, &mut fam, 6, 12);
    // restart requests (never for stream-attached actors: documented to be unsupported)
    if !stream {
        for _ in 0..g.below(3) {
            let at = fam.pos(g, 0);
            let op = match g.below(3) {
                0 => Op::Restart { h: PRIMARY },
                1 => Op::Send { h: PRIMARY, id: g.id(), work: vec![Work::CtxRestart] },
                _ => Op::Call { h: PRIMARY, id: g.id(), work: vec![Work::CtxRestart] },
            };
            fam.insert(0, at, vec![op]);
        }
        if g.chance(1, 10) {
            // started fails on the n-th start, i.e. during a restart
            fam.sc.faults.push(Fault { actor: 0, kind: FaultKind::StartErr { nth: g.range(1, 2) as u32 } });
        }
    }
    apply_cause(g, &mut fam, cause);
    // messages right behind the stop, so that something is still queued at termination
    if g.chance(1, 2) && cause != Cause::LastDrop {
        let ops = &mut fam.sc.clients[0].ops;
        for _ in 0..g.range(1, 3) {
            ops.push(Op::Send { h: PRIMARY, id: g.id(), work: vec![] });
        }
    }
    if cause != Cause::LastDrop && g.chance(1, 2) {
        let ops = &mut fam.sc.clients[0].ops;
        ops.push(Op::Stop { h: PRIMARY });
        if g.chance(1, 2) {
            ops.push(Op::Await { h: PRIMARY, on_clone: true });
        }
    }
    fam.sc.sched = g.sched(true);
    fam.sc.settle_ns = 60;
    fam.sc
}

#[derive(Clone, Copy, PartialEq, Eq, Debug)]
enum S {
    Init,
    Running,
    Finished,
    Stopped,
    Failed,
    Broken,
}

pub fn check(v: &View) -> Vec<Violation> {
    let mut out = vec![];
    for a in v.actors.values() {
        let Some(aidx) = a.aidx else { continue };
        let spec = v.sc.spec_of(aidx);
        let stream = spec.entry.on_stream();
        if stream {
            crate::log::probe("c03_stream_actor");
        }
        let kind = if stream { "stream" } else { "plain" };
        let cbs: Vec<&CbRec> = v.cbs_of(a).collect();
        let mut st = S::Init;
        let mut incarnations = 0u32;
        for (i, c) in cbs.iter().enumerate() {
            let last = i + 1 == cbs.len();
            let mut bad = |rule: &str, why: String| {
                out.push(violation(P, rule, kind, format!("actor {aidx} (restart {:?}, entry {:?}): {why}; callback #{i} {:?}/{} inc {} at seq {}", spec.restart, spec.entry, c.cb, c.id, c.inc, c.enter)));
            };
            // a callback that never exited must be the last one, unless a handler timeout abandoned it
            if c.exit.is_none() && !last && !(c.cb.is_handler() && spec.effective_timeout().is_some()) {
                bad("callback-never-finished", "a later callback ran although this one had not returned".into());
            }
            match c.cb {
                Cb::Started => {
                    match st {
                        S::Init => {}
                        S::Stopped => {
                            crate::log::probe("c03_restart_seen");
                            if spec.restart == Restart::NonRestartable || stream {
                                bad("restart-of-non-restartable", "started again although the actor is non-restartable".into());
                            }
                        }
                        _ => bad("started-out-of-place", format!("started called in state {st:?}")),
                    }
                    incarnations += 1;
                    if c.inc != incarnations {
                        // the harness counts started() calls per value; a recreated value starts at 1
                        if !(spec.restart == Restart::Recreate && c.inc == 1) {
                            bad("started-count", format!("value reports {} started calls, trace has {}", c.inc, incarnations));
                        }
                    }
                    st = match c.exit {
                        Some(_) if c.ok => S::Running,
                        Some(_) => {
                            crate::log::probe("c03_start_failed");
                            S::Failed
                        }
                        None => S::Broken,
                    };
                }
                Cb::Finished => {
                    if !stream {
                        bad("finished-on-plain-actor", "finished called on an actor without stream".into());
                    }
                    if st != S::Running {
                        bad("finished-out-of-place", format!("finished called in state {st:?}"));
                    }
                    st = if c.exit.is_some() { S::Finished } else { S::Broken };
                }
                Cb::Stopped => {
                    match st {
                        S::Running if !stream => {}
                        S::Finished if stream => {}
                        S::Running if stream => bad("finished-skipped", "stopped called without finished on a stream-attached actor".into()),
                        _ => bad("stopped-out-of-place", format!("stopped called in state {st:?}")),
                    }
                    st = if c.exit.is_some() { S::Stopped } else { S::Broken };
                }
                _ => {
                    if st != S::Running {
                        let rule = match st {
                            S::Init => "handler-before-started",
                            S::Failed => "handler-after-start-failure",
                            S::Stopped | S::Finished => "handler-after-stopped",
                            _ => "handler-out-of-place",
                        };
                        bad(rule, format!("a handler ran in state {st:?}"));
                    }
                    if c.cb == Cb::Item && !stream {
                        bad("item-on-plain-actor", "stream item handled by an actor without stream".into());
                    }
                }
            }
        }
        // number of incarnations is bounded by the restart requests that were accepted
        let mut requested = 0u32;
        for o in v.ops.iter().filter(|o| o.target == Some(aidx) && matches!(o.inner, Op::Restart { .. }) && o.ok()) {
            let _ = o;
            requested += 1;
        }
        for r in &v.out.log {
            if let Ev::CtxRes { aidx: x, what: CtxOp::Restart, ok: true, .. } = &r.ev {
                if *x == aidx {
                    requested += 1;
                }
            }
        }
        if incarnations > 1 + requested {
            out.push(violation(P, "more-incarnations-than-restarts", kind, format!("actor {aidx}: {incarnations} incarnations but only {requested} accepted restart requests")));
        }
        // graceful ends: when nothing was injected and the task ran to completion, the trace must
        // end in Stopped (preceded by Finished on streams, checked above)
        if a.dead.is_some() && a.how == Some(HOW_COMPLETED) && !v.fault_injected(a) {
            crate::log::probe("c03_graceful_end_checked");
            if st != S::Stopped {
                out.push(violation(P, "ended-without-stopped", kind, format!("actor {aidx} (entry {:?}): task completed without fault but the callback trace ends in state {st:?}", spec.entry)));
            }
        }
        // started error => failed termination as seen by awaiters / joiners
        if st == S::Failed {
            for o in v.ops.iter().filter(|o| o.target == Some(aidx) && o.ended()) {
                let bad = match o.inner {
                    Op::Await { .. } => matches!(o.res, Some(Res::Ok)),
                    Op::Join { .. } | Op::DropThenJoin { .. } | Op::JoinFinish => matches!(o.res, Some(Res::Joined(Some(_)))),
                    _ => false,
                };
                if bad {
                    out.push(violation(P, "start-failure-reported-as-graceful", kind, format!("actor {aidx}: started returned an error but {:?} returned {:?}", o.inner, o.res)));
                }
            }
        }
    }
    out
}

pub fn nontrivial(v: &View) -> bool {
    for a in v.actors.values() {
        let Some(aidx) = a.aidx else { continue };
        if a.dead.is_none() {
            continue;
        }
        let starts = v.cbs_of(a).filter(|c| c.cb == Cb::Started).count();
        if starts >= 2 {
            return true;
        }
        for o in v.ops.iter().filter(|o| o.target == Some(aidx) && matches!(o.inner, Op::Send { .. } | Op::ForceSend { .. }) && matches!(o.res, Some(Res::Ok))) {
            let id = o.msg_id().unwrap();
            if !v.cbs_of(a).any(|c| c.id == id && c.cb == Cb::Msg) {
                return true;
            }
        }
        let mut submitted = 0;
        for r in &v.out.log {
            if let Ev::TimerSubmit { aidx: x, .. } = &r.ev {
                if *x == aidx {
                    submitted += 1;
                }
            }
        }
        if submitted > v.cbs_of(a).filter(|c| c.cb == Cb::Tick).count() {
            return true;
        }
    }
    false
}
