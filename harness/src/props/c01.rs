//! C01 — mailbox is FIFO: sequential, in-order, at-most-once; state = sequential fold.
use super::PropDef;
use crate::actors::digest_of;
use crate::analysis::*;
use crate::sgen::*;
use crate::log::*;
use crate::model::*;
use std::collections::BTreeMap;

pub fn def() -> PropDef {
    PropDef {
        id: "C01",
        level: "exploration",
        generate,
        check,
        nontrivial,
        rule: "seeded generation of 1-4 client programs (<=12 submissions each through Addr/OwningAddr/Sender/Caller/WeakSender/WeakCaller, waiting and forcing path, client-side cancellation, 0-2 interval timers as extra traffic, mailbox unbounded or bounded(0..3)) x seeded schedules; non-trivial = two clients had overlapping submission windows on the actor and both submission paths were used; distinct = distinct order of client-op and callback events",
        needed_probes: &["c01_pair_checked", "c01_digest_checked", "send_parked"],
        quick_runs: 200_000,
        thorough_runs: 2_000_000,
        block: 1,
        flavours: &["tokio"],
        outcome: None,
        extra_profiles: &["C02", "C03", "C04", "C05", "C06", "C07", "C10", "C11", "C12", "C13", "C16", "C17"],
        adapt: None,
    }
}

pub const SUBMIT_KINDS: [HKind; 6] =
    [HKind::Addr, HKind::Sender, HKind::Caller, HKind::WeakSender, HKind::WeakCaller, HKind::Addr];

/// a random submission through the handle of kind `k` in slot `s`
pub fn submission(g: &mut G, k: HKind, s: Slot) -> Op {
    let work = g.light_work();
    let id = g.id();
    match k {
        HKind::Addr | HKind::Owning => match g.below(5) {
            0 | 1 => Op::Send { h: s, id, work },
            2 | 3 => Op::Call { h: s, id, work },
            _ => Op::Ping { h: s },
        },
        HKind::Sender => Op::Send { h: s, id, work },
        HKind::Caller | HKind::WeakCaller => Op::Call { h: s, id, work },
        HKind::WeakSender => {
            if g.chance(1, 3) {
                Op::ForceSend { h: s, id, work }
            } else {
                Op::Send { h: s, id, work }
            }
        }
        HKind::WeakAddr => Op::QueryStopped { h: s },
    }
}

pub fn generate(g: &mut G, _index: u64) -> Scenario {
    let mut sc = Scenario::empty(0);
    sc.sched = g.sched(true);
    let owning = g.chance(1, 2);
    let mut spec = ActorSpec {
        mailbox: g.mailbox(),
        entry: if owning { Entry::BuilderSpawnOwning } else { Entry::BuilderSpawn },
        ..Default::default()
    };
    for t in 0..g.below(3) {
        spec.on_start.push(Work::Timer(TimerSpec {
            id: t as u32,
            kind: g.pick(&[TimerKind::Interval, TimerKind::IntervalWith]),
            period: g.range(3, 40),
            handler_sleep: 0,
        }));
    }
    let slow_restart = g.chance(1, 8);
    if slow_restart {
        spec.on_start.insert(0, if g.chance(1, 2) { Work::Sleep(g.range(3, 30)) } else { Work::Yield(g.range(1, 3) as u32) });
        if g.chance(1, 2) {
            spec.stopped_yields = g.range(1, 2) as u32;
        }
    }
    sc.actors.push(spec);
    let nclients = g.range(1, 4) as usize;
    sc.setup.push(Op::Spawn { spec: 0, slot: 0 });
    let mut slots: Vec<Slots> = vec![Slots::default(); nclients];
    for c in 0..nclients {
        let n = g.range(1, 3) as usize;
        for k in 0..n {
            let kind = g.pick(&SUBMIT_KINDS);
            sc.setup.push(derive(kind, 0, 1));
            sc.setup.push(Op::Give { h: 1, client: c as u32, to: k });
            slots[c].set(k, Some(kind));
        }
    }
    // the primary handle stays with client 0 (slot 8) so that the actor lives while clients work
    sc.setup.push(Op::Give { h: 0, client: 0, to: 8 });
    slots[0].set(8, Some(if owning { HKind::Owning } else { HKind::Addr }));

    for c in 0..nclients {
        let mut ops = vec![];
        for s in slots[c].any() {
            ops.push(Op::Take { to: s });
        }
        let n = if g.thorough && g.chance(1, 3) { g.range(8, 24) } else { g.range(1, 12) };
        for _ in 0..n {
            let s = g.pick(&slots[c].any());
            let k = slots[c].get(s).unwrap();
            let op = submission(g, k, s);
            if g.chance(1, 8) {
                ops.push(Op::CancelAfter { polls: g.range(1, 3) as u32, op: Box::new(op) });
            } else {
                ops.push(op);
            }
            g.maybe_yield(&mut ops);
        }
        if c == 0 && slow_restart {
            // a restart with slow hooks somewhere in the middle: order, barriers and the
            // at-most-once guarantee hold across it and while it is in progress
            let lo = slots[c].any().len();
            let at = g.range(lo as u64, ops.len() as u64) as usize;
            ops.insert(at, if g.chance(2, 3) { Op::Restart { h: 8 } } else { Op::Send { h: 8, id: g.id(), work: vec![Work::CtxRestart] } });
        }
        if c == 0 && owning {
            match g.below(4) {
                0 => ops.push(Op::Consume { h: 8 }),
                1 => {
                    ops.push(Op::Stop { h: 8 });
                    ops.push(Op::Join { h: 8 });
                }
                2 => ops.push(Op::ConsumeSync { h: 8 }),
                _ => {}
            }
        }
        sc.clients.push(ClientSpec { ops });
    }
    sc.settle_ns = 100;
    sc
}

/// Is this operation a submission whose completion means "the message was accepted"?
fn accepted(o: &OpRec) -> bool {
    match o.inner {
        Op::Send { .. } | Op::ForceSend { .. } => matches!(o.res, Some(Res::Ok)),
        Op::Call { .. } => matches!(o.res, Some(Res::Reply(_))),
        _ => false,
    }
}

fn path(o: &OpRec) -> &'static str {
    if o.waiting_path() { "waiting" } else { "forcing" }
}

pub fn check(v: &View) -> Vec<Violation> {
    let mut out = vec![];
    const P: &str = "C01";
    for a in v.actors.values() {
        let Some(aidx) = a.aidx else { continue };
        let spec = v.sc.spec_of(aidx);
        let cbs: Vec<&CbRec> = v.cbs_of(a).collect();
        // operations are attributed to actors by scenario index: only meaningful if that index
        // was spawned exactly once (default service instances may be respawned)
        let unique = v.actors_of(aidx).len() == 1 && aidx < AIDX_SVC_A;

        // (a) callbacks of one actor never overlap (an invocation abandoned by a handler timeout
        //     has no exit; that is C11's business and only possible with a timeout configured)
        for w in cbs.windows(2) {
            let (p, n) = (w[0], w[1]);
            let overlap = match p.exit {
                Some(x) => n.enter < x,
                None => spec.effective_timeout().is_none(),
            };
            if overlap {
                out.push(violation(
                    P,
                    "overlap",
                    "",
                    format!("actor {aidx}: callback {:?}/{} entered at seq {} before {:?}/{} (entered {}) had exited", n.cb, n.id, n.enter, p.cb, p.id, p.enter),
                ));
            }
        }

        // (b) at most once
        let mut seen: BTreeMap<(u64, u64, u32), u64> = BTreeMap::new();
        for c in cbs.iter().filter(|c| c.cb.is_handler() && c.cb != Cb::Unit) {
            if let Some(prev) = seen.insert((c.cb.code(), c.id, 0), c.enter) {
                out.push(violation(
                    P,
                    "handled-twice",
                    "",
                    format!("actor {aidx}: message {:?}/{} handled at seq {} and again at {}", c.cb, c.id, prev, c.enter),
                ));
            }
        }

        // (d) state = sequential fold, checked per actor value (instance)
        let mut entered: BTreeMap<u32, Vec<u64>> = BTreeMap::new();
        let mut exited: BTreeMap<u32, Vec<(u64, u64)>> = BTreeMap::new(); // (exit seq, id)
        for c in cbs.iter().filter(|c| c.cb.is_handler()) {
            entered.entry(c.inst).or_default().push(c.id);
            if let Some(x) = c.exit {
                exited.entry(c.inst).or_default().push((x, c.id));
            }
        }
        for c in cbs.iter().filter(|c| c.cb == Cb::Ask) {
            // find the reply the client got for this id (if it got one)
            let Some(o) = v.ops.iter().find(|o| matches!(o.inner, Op::Call { id, .. } if *id == c.id)) else { continue };
            let Some(Res::Reply(r)) = o.res else { continue };
            let Some(cexit) = c.exit else { continue };
            let all = &entered[&c.inst];
            let pos = cbs.iter().filter(|x| x.cb.is_handler() && x.inst == c.inst && x.enter <= c.enter).count();
            let ent = &all[..pos];
            let ex: Vec<u64> = exited
                .get(&c.inst)
                .map(|e| e.iter().filter(|(x, _)| *x < cexit).map(|(_, id)| *id).collect())
                .unwrap_or_default();
            crate::log::probe("c01_digest_checked");
            if r.digest != digest_of(ent, &ex) || r.n_entered as usize != ent.len() || r.inst != c.inst {
                out.push(violation(
                    P,
                    "state-not-fold",
                    "reply",
                    format!("actor {aidx} inst {}: reply to call {} carries state digest {:x} / {} entered, log says {} entered {:?} exited {:?}", c.inst, c.id, r.digest, r.n_entered, ent.len(), ent, ex),
                ));
            }
        }
        for o in v.ops.iter().filter(|o| o.target == Some(aidx) && unique) {
            if let Some(Res::Joined(Some(j))) = o.res {
                let ent = entered.get(&j.inst).cloned().unwrap_or_default();
                let ex: Vec<u64> = exited.get(&j.inst).map(|e| e.iter().map(|(_, id)| *id).collect()).unwrap_or_default();
                crate::log::probe("c01_digest_checked");
                if j.entered != ent || j.exited != ex {
                    out.push(violation(
                        P,
                        "state-not-fold",
                        "join",
                        format!("actor {aidx} inst {}: joined value has entered {:?} exited {:?}, log says {:?} / {:?}", j.inst, j.entered, j.exited, ent, ex),
                    ));
                }
            }
        }

        // (c) real-time order between submissions
        if !unique {
            continue;
        }
        let by_id: BTreeMap<u64, &CbRec> =
            cbs.iter().filter(|c| matches!(c.cb, Cb::Msg | Cb::Ask)).map(|c| (c.id, *c)).collect();
        let subs: Vec<&OpRec> = v
            .ops
            .iter()
            .filter(|o| o.target == Some(aidx) && !o.skipped() && matches!(o.inner, Op::Send { .. } | Op::ForceSend { .. } | Op::Call { .. } | Op::Ping { .. }))
            .collect();
        for m1 in subs.iter().filter(|o| o.ended()) {
            let Some(id1) = m1.msg_id() else { continue };
            let r1 = m1.end.unwrap();
            let h1 = by_id.get(&id1);
            for m2 in subs.iter().filter(|o| o.begin > r1) {
                crate::log::probe("c01_pair_checked");
                match m2.inner {
                    Op::Ping { .. } => {
                        // a ping that returned Ok after m1 was accepted implies m1 was handled before
                        if matches!(m2.res, Some(Res::Ok)) && accepted(m1) {
                            let done = h1.and_then(|h| h.exit).is_some_and(|x| x < m2.end.unwrap());
                            let abandoned_by_timeout = spec.effective_timeout().is_some() && h1.is_some();
                            if !done && !abandoned_by_timeout {
                                out.push(violation(
                                    P,
                                    "ping-overtook",
                                    path(m1),
                                    format!("actor {aidx}: ping begun at {} returned Ok at {} but message {} (accepted at {}) was not handled before", m2.begin, m2.end.unwrap(), id1, r1),
                                ));
                            }
                        }
                    }
                    _ => {
                        let id2 = m2.msg_id().unwrap();
                        let Some(h2) = by_id.get(&id2) else { continue };
                        match h1 {
                            Some(h1) => {
                                if h2.enter < h1.enter {
                                    out.push(violation(
                                        P,
                                        "reordered",
                                        &format!("{}->{}", path(m1), path(m2)),
                                        format!("actor {aidx}: message {id2} (submitted at {}, after {id1} had completed at {r1}) was handled at {} before {id1} at {}", m2.begin, h2.enter, h1.enter),
                                    ));
                                }
                            }
                            None => {
                                if accepted(m1) {
                                    out.push(violation(
                                        P,
                                        "handled-without-predecessor",
                                        &format!("{}->{}", path(m1), path(m2)),
                                        format!("actor {aidx}: message {id2} (submitted at {}) was handled at {} but {id1}, accepted earlier at {r1}, never was", m2.begin, h2.enter),
                                    ));
                                }
                            }
                        }
                    }
                }
            }
        }
    }
    out
}

pub fn nontrivial(v: &View) -> bool {
    let subs: Vec<&OpRec> = v
        .ops
        .iter()
        .filter(|o| o.client != SETUP_CLIENT && !o.skipped() && matches!(o.inner, Op::Send { .. } | Op::ForceSend { .. } | Op::Call { .. } | Op::Ping { .. }))
        .collect();
    let mut waiting = false;
    let mut forcing = false;
    for o in &subs {
        if o.waiting_path() {
            waiting = true
        } else {
            forcing = true
        }
    }
    if !(waiting && forcing) {
        return false;
    }
    for (i, a) in subs.iter().enumerate() {
        for b in subs.iter().skip(i + 1) {
            if a.client != b.client && a.target == b.target {
                let (ae, be) = (a.end.unwrap_or(u64::MAX), b.end.unwrap_or(u64::MAX));
                // overlapping and not merely adjacent: each began before the other ended, and at
                // least one of them spans more than its own begin/end pair
                if a.begin < be && b.begin < ae && (ae > a.begin + 1 || be > b.begin + 1) {
                    return true;
                }
            }
        }
    }
    false
}
