//! C11 — handler timeouts abandon exactly the invocations that exceed the limit.
use super::PropDef;
use crate::analysis::*;
use crate::log::*;
use crate::model::*;
use crate::sgen::*;

const P: &str = "C11";

pub fn def() -> PropDef {
    PropDef {
        id: P,
        level: "exploration",
        generate,
        check,
        nontrivial,
        rule: "timeout t in 1..1000 virtual ticks (and no-timeout control runs), handler durations drawn from {0, t-1, t+1, t/10, 5t, uniform, yields only}, message sequences from 1-3 clients with successors queued behind the slow one and idle gaps (shorter and longer than t) between messages, fail_on_timeout in {false,true}, both mailbox kinds, ideal clock (exact boundaries) and racing clock (consistency rules only); x seeded schedules; non-trivial = an invocation ran within one tick of the limit, or was abandoned with successors queued; distinct = distinct order of client-op and callback events",
        needed_probes: &["c11_below_limit", "c11_above_limit", "c11_boundary", "c11_successor_after_abandon", "c11_fail_on_timeout", "c11_no_timeout_control"],
        quick_runs: 200_000,
        thorough_runs: 2_000_000,
        block: 1,
        flavours: &["tokio"],
        outcome: None,
        extra_profiles: &["C02", "C13", "C17"],
        adapt: None,
    }
}

pub fn generate(g: &mut G, _index: u64) -> Scenario {
    let control = g.chance(1, 6);
    let t = g.range(1, 1000).max(2);
    let fail = !control && g.chance(1, 3);
    let spec = ActorSpec {
        mailbox: g.mailbox(),
        timeout: if control { None } else { Some(t) },
        fail_on_timeout: fail,
        entry: if g.chance(1, 2) { Entry::BuilderSpawnOwning } else { Entry::BuilderSpawn },
        ..Default::default()
    };
    let kinds = [HKind::Addr, HKind::Sender, HKind::Caller];
    let nclients = g.range(1, 3) as usize;
    let mut fam = one_actor(g, spec, nclients, &kinds, (1, 2));
    for c in 0..nclients {
        let n = g.range(1, 6);
        for _ in 0..n {
            let d = match g.below(8) {
                0 => 0,
                1 => t - 1,
                2 => t + 1,
                3 => t / 10,
                4 => 5 * t,
                5 => g.range(0, 2 * t),
                6 => t + g.range(1, 3),
                _ => t.saturating_sub(g.range(1, 3)),
            };
            let d = if d == t { t + 1 } else { d };
            let mut work = vec![];
            if g.chance(1, 4) {
                work.push(Work::Yield(g.range(1, 2) as u32));
            }
            if d > 0 {
                // sometimes split the sleep into two parts (an effect in the middle)
                if d > 3 && g.chance(1, 3) {
                    let a = g.range(1, d - 1);
                    work.push(Work::Sleep(a));
                    work.push(Work::Sleep(d - a));
                } else {
                    work.push(Work::Sleep(d));
                }
            }
            let s = g.pick(&fam.slots[c].any());
            let id = g.id();
            let op = match fam.slots[c].get(s).unwrap() {
                HKind::Sender => Op::Send { h: s, id, work },
                HKind::Caller => Op::Call { h: s, id, work },
                _ => {
                    if g.chance(1, 3) { Op::Send { h: s, id, work } } else { Op::Call { h: s, id, work } }
                }
            };
            // a caller that gives up does not abandon the invocation: only the limit does
            let op = if matches!(op, Op::Call { .. }) && g.chance(1, 8) { Op::CancelAfter { polls: g.range(1, 2) as u32, op: Box::new(op) } } else { op };
            fam.sc.clients[c].ops.push(op);
            // idle gaps between messages (shorter and longer than the limit): the limit applies to
            // an invocation, not to the time the actor spent waiting for work
            if g.chance(1, 4) {
                let gap = g.pick(&[t / 2, t, 2 * t, 3 * t + 1]).max(1);
                fam.sc.clients[c].ops.push(Op::Sleep(gap));
            }
        }
    }
    if g.chance(1, 2) {
        let ops = &mut fam.sc.clients[0].ops;
        ops.push(Op::Call { h: PRIMARY, id: g.id(), work: vec![] });
        if g.chance(1, 2) {
            ops.push(Op::Stop { h: PRIMARY });
            ops.push(Op::Await { h: PRIMARY, on_clone: true });
        }
    }
    fam.sc.sched = g.sched(true);
    // exact boundary checks need the ideal clock; keep the racing share small
    if fam.sc.sched.racing_per_mille != 0 && g.chance(1, 2) {
        fam.sc.sched.racing_per_mille = 0;
    }
    fam.sc.sched.spurious_per_mille = 0;
    fam.sc.settle_ns = 12 * t;
    fam.sc
}

fn total_sleep(work: &[Work]) -> u64 {
    work.iter().map(|w| if let Work::Sleep(d) = w { *d } else { 0 }).sum()
}

pub fn check(v: &View) -> Vec<Violation> {
    let mut out = vec![];
    let ideal = v.sc.sched.racing_per_mille == 0;
    for a in v.actors.values() {
        let Some(aidx) = a.aidx else { continue };
        if aidx >= AIDX_SVC_A || v.actors_of(aidx).len() != 1 {
            continue;
        }
        let spec = v.sc.spec_of(aidx);
        let cbs: Vec<&CbRec> = v.cbs_of(a).collect();
        let mut first_abandon: Option<&CbRec> = None;
        for (i, c) in cbs.iter().enumerate().filter(|(_, c)| matches!(c.cb, Cb::Msg | Cb::Ask)) {
            let Some(o) = v.ops.iter().find(|o| o.msg_id() == Some(c.id) && matches!(o.inner, Op::Send { .. } | Op::Call { .. })) else { continue };
            let work = match o.inner {
                Op::Send { work, .. } | Op::Call { work, .. } => work,
                _ => continue,
            };
            let d = total_sleep(work);
            let is_call = matches!(o.inner, Op::Call { .. });
            let died_during = a.dead.is_some_and(|x| c.exit.is_none() && first_abandon.is_none() && spec.effective_timeout().is_none() && x > c.enter);
            match spec.effective_timeout() {
                None => {
                    crate::log::probe("c11_no_timeout_control");
                    if c.exit.is_none() && !died_during && !v.fault_injected(a) && v.out.outcome.cap_phase == 0 && v.out.outcome.quiescent_at_end {
                        out.push(violation(P, "abandoned-without-timeout", "", format!("actor {aidx}: no timeout configured but the invocation for message {} (duration {d}) never finished", c.id)));
                    }
                }
                Some(t) => {
                    let sig = if spec.effective_fail_on_timeout() { "fail" } else { "continue" };
                    if d + 1 == t || d == t + 1 {
                        crate::log::probe("c11_boundary");
                    }
                    // consistency (both clock modes): a reply means the handler finished, an error
                    // on a handled call means it did not; never both
                    if is_call && o.ended() && !o.abandoned() {
                        match (o.res, c.exit) {
                            (Some(Res::Reply(_)), None) => out.push(violation(P, "reply-from-abandoned-invocation", sig, format!("actor {aidx}: call {} got a reply although its invocation never finished", c.id))),
                            (Some(Res::Err(_)), Some(x)) if a.dead.is_none_or(|dd| dd > x) && o.begin < c.enter => {
                                out.push(violation(P, "error-from-completed-invocation", sig, format!("actor {aidx}: call {} got {:?} although its invocation ran to completion at seq {x}", c.id, o.res)))
                            }
                            _ => {}
                        }
                    }
                    // no further effects after abandonment.  The abandonment happens in the poll in
                    // which the timeout branch wins; it is over at the latest when the next callback
                    // starts, the caller has its error, or the actor's task has ended.  On the ideal
                    // clock nothing can happen after the deadline instant either; on the racing clock
                    // a late poll may still advance the invocation before the timer is looked at (R4).
                    if c.exit.is_none() {
                        let deadline = c.enter_vt + t;
                        let mut bound = a.dead.unwrap_or(u64::MAX);
                        if let Some(n) = cbs.get(i + 1) {
                            bound = bound.min(n.enter);
                        }
                        if is_call && o.err() && o.begin < c.enter {
                            bound = bound.min(o.end.unwrap());
                        }
                        for r in &v.out.log {
                            if let Ev::Progress { inst, id, .. } = &r.ev {
                                if *inst == c.inst && *id == c.id && (r.st.seq > bound || (ideal && r.st.vtime > deadline)) {
                                    out.push(violation(P, "effect-after-abandonment", sig, format!("actor {aidx}: invocation for message {} entered at t={} (timeout {t}) still made progress at seq {} / t={} (abandoned by seq {bound})", c.id, c.enter_vt, r.st.seq, r.st.vtime)));
                                }
                            }
                        }
                    }
                    if ideal {
                        if d < t {
                            crate::log::probe("c11_below_limit");
                            let killed = a.dead.is_some() && c.exit.is_none() && (v.fault_injected(a) || first_abandon.is_some());
                            if c.exit.is_none() && !killed && v.out.outcome.cap_phase == 0 {
                                out.push(violation(P, "abandoned-below-limit", sig, format!("actor {aidx}: invocation for message {} needs {d} < timeout {t} but was abandoned (entered t={})", c.id, c.enter_vt)));
                            }
                            if is_call && c.exit.is_some() && o.ended() && !o.abandoned() && !matches!(o.res, Some(Res::Reply(_))) {
                                out.push(violation(P, "error-below-limit", sig, format!("actor {aidx}: call {} (duration {d} < timeout {t}) returned {:?}", c.id, o.res)));
                            }
                        } else if d > t {
                            crate::log::probe("c11_above_limit");
                            if c.exit.is_some() {
                                out.push(violation(P, "completed-above-limit", sig, format!("actor {aidx}: invocation for message {} needs {d} > timeout {t} but ran to completion (t={}..{})", c.id, c.enter_vt, c.exit_vt)));
                            } else if v.fault_injected(a) && a.dead.is_some() && a.dead_vt < c.enter_vt + t {
                                // the invocation was ended by an injected failure (cancellation,
                                // panic) before its limit was reached: not a timeout at all
                                crate::log::probe("c11_slow_invocation_ended_by_fault");
                            } else {
                                if first_abandon.is_none() {
                                    first_abandon = Some(c);
                                }
                                if is_call && o.ended() && !o.abandoned() && o.begin < c.enter {
                                    if !o.err() {
                                        out.push(violation(P, "no-error-above-limit", sig, format!("actor {aidx}: call {} (duration {d} > timeout {t}) returned {:?}", c.id, o.res)));
                                    } else if o.end_vt != c.enter_vt + t {
                                        out.push(violation(P, "abandoned-at-wrong-time", sig, format!("actor {aidx}: call {} entered its handler at t={} with timeout {t}; its caller got the error at t={} instead of t={}", c.id, c.enter_vt, o.end_vt, c.enter_vt + t)));
                                    }
                                }
                                // what happens next
                                let next = cbs.get(i + 1);
                                if spec.effective_fail_on_timeout() {
                                    crate::log::probe("c11_fail_on_timeout");
                                    if let Some(n) = next {
                                        out.push(violation(P, "callback-after-timeout-failure", sig, format!("actor {aidx}: fail_on_timeout is set, message {} timed out, yet callback {:?}/{} ran afterwards", c.id, n.cb, n.id)));
                                    }
                                    if v.out.outcome.quiescent_at_end && (a.dead.is_none() || v.graceful(a)) {
                                        out.push(violation(P, "timeout-failure-not-fatal", sig, format!("actor {aidx}: fail_on_timeout is set and message {} timed out but the actor did not terminate as failed", c.id)));
                                    }
                                } else if let Some(n) = next {
                                    crate::log::probe("c11_successor_after_abandon");
                                    if n.enter_vt < c.enter_vt + t {
                                        out.push(violation(P, "successor-before-deadline", sig, format!("actor {aidx}: successor {:?}/{} entered at t={} before the slow invocation's deadline t={}", n.cb, n.id, n.enter_vt, c.enter_vt + t)));
                                    }
                                }
                            }
                        }
                    }
                }
            }
        }
        // the converse of "abandon exactly those that exceed the limit": an actor with a handler
        // limit does not end as failed when every invocation ran to its end (and nothing else
        // was injected) - e.g. a handler that completes in the very poll in which the deadline is
        // noticed is either completed or abandoned, not both
        if let (Some(t), true) = (spec.effective_timeout(), a.dead.is_some() && !v.graceful(a) && !v.fault_injected(a) && v.out.outcome.cap_phase == 0) {
            out.push(violation(P, "failed-although-nothing-abandoned", if spec.effective_fail_on_timeout() { "fail" } else { "continue" }, format!("actor {aidx} (timeout {t}): terminated as failed (how {:?}) although every handler invocation ran to completion and no failure was injected", a.how)));
        }
        // fail_on_timeout: awaiters see the failure
        if spec.effective_fail_on_timeout() && first_abandon.is_some() {
            for o in v.ops.iter().filter(|o| o.target == Some(aidx) && matches!(o.inner, Op::Await { .. }) && o.ended()) {
                if matches!(o.res, Some(Res::Ok)) {
                    out.push(violation(P, "timeout-failure-reported-graceful", "fail", format!("actor {aidx}: terminated by a handler timeout but awaiting the address returned Ok")));
                }
            }
        }
    }
    // surviving state: the sequential fold, where an abandoned invocation contributes its entry only
    for x in super::c01::check(v) {
        if x.rule == "state-not-fold" {
            out.push(violation(P, "state-after-timeout-not-intact", "", x.detail));
        }
    }
    out
}

pub fn nontrivial(v: &View) -> bool {
    for a in v.actors.values() {
        let Some(aidx) = a.aidx else { continue };
        let Some(t) = v.sc.spec_of(aidx).effective_timeout() else { continue };
        let cbs: Vec<&CbRec> = v.cbs_of(a).collect();
        for (i, c) in cbs.iter().enumerate() {
            let Some(o) = v.ops.iter().find(|o| o.msg_id() == Some(c.id)) else { continue };
            let d = match o.inner {
                Op::Send { work, .. } | Op::Call { work, .. } => total_sleep(work),
                _ => continue,
            };
            if d + 1 == t || d == t + 1 {
                return true;
            }
            if c.exit.is_none() && d > t && cbs.get(i + 1).is_some() {
                return true;
            }
        }
    }
    false
}
