//! C10 — timers respect their period/delay, die with the actor and never prolong it.
use super::PropDef;
use crate::analysis::*;
use crate::log::*;
use crate::model::*;
use crate::sgen::*;
use std::collections::BTreeMap;

const P: &str = "C10";

pub fn def() -> PropDef {
    PropDef {
        id: P,
        level: "exploration",
        generate,
        check,
        nontrivial,
        rule: "0-4 timers of mixed kinds (interval, interval_with, delayed_send, delayed_exec) per actor, registered in started and in handlers, periods and delays 1..10000 virtual ticks, both mailbox kinds, termination at a random virtual time by every cause (incl. last handle dropped, panic, cancellation) or none, ideal and racing clock (timer expiry racing with runnable tasks); x seeded schedules; spacing measured at the submission instant; non-trivial = two or more ticks of one interval were observed, or the actor terminated with a timer pending; distinct = distinct order of client-op, callback and timer-submission events",
        needed_probes: &["c10_spacing_checked", "c10_exact_schedule_checked", "c10_oneshot_checked", "c10_died_with_pending_timer", "timer_fired_while_runnable", "c10_last_drop_with_timer"],
        quick_runs: 200_000,
        thorough_runs: 2_000_000,
        block: 1,
        flavours: &["tokio"],
        outcome: None,
        extra_profiles: &["C01", "C03", "C05", "C06", "C07", "C12", "C15"],
        adapt: None,
    }
}

fn period(g: &mut G) -> u64 {
    match g.below(4) {
        0 => g.range(1, 5),
        1 => g.range(5, 50),
        2 => g.range(50, 500),
        _ => g.range(500, 10_000),
    }
}

pub fn generate(g: &mut G, _index: u64) -> Scenario {
    let cause = g.pick(&super::c02::CAUSES);
    let cause = if cause == Cause::TimeoutFail { Cause::Stop } else { cause };
    let mut spec = ActorSpec {
        mailbox: g.mailbox(),
        entry: if g.chance(1, 2) { Entry::BuilderSpawnOwning } else { Entry::BuilderSpawn },
        ..Default::default()
    };
    let nt = g.below(5);
    let mut longest = 10;
    let mut shortest = 10_000;
    for t in 0..nt {
        let p = period(g);
        longest = longest.max(p);
        shortest = shortest.min(p);
        spec.on_start.push(Work::Timer(TimerSpec {
            id: t as u32,
            kind: g.pick(&[TimerKind::Interval, TimerKind::IntervalWith, TimerKind::DelayedSend, TimerKind::DelayedExec]),
            period: p,
            // tick handlers never use more than half of the actor's time in total
            handler_sleep: if g.chance(1, 6) && p / (2 * nt.max(1)) >= 1 { g.range(1, p / (2 * nt.max(1))) } else { 0 },
        }));
    }
    let kinds: &[HKind] = if cause == Cause::LastDrop { &[HKind::WeakSender, HKind::WeakAddr] } else { &[HKind::Addr, HKind::Sender, HKind::WeakSender] };
    let nclients = g.range(1, 2) as usize;
    let mut fam = one_actor(g, spec, nclients, kinds, (1, 1));
    // a timer registered from a handler
    if g.chance(1, 3) {
        let p = period(g);
        longest = longest.max(p);
        shortest = shortest.min(p);
        let t = Work::Timer(TimerSpec { id: 9, kind: g.pick(&[TimerKind::Interval, TimerKind::IntervalWith, TimerKind::DelayedSend, TimerKind::DelayedExec]), period: p, handler_sleep: 0 });
        if cause == Cause::LastDrop {
            fam.sc.clients[0].ops.push(Op::Send { h: PRIMARY, id: g.id(), work: vec![t] });
        } else {
            let s = fam.slots[0].any()[0];
            fam.sc.clients[0].ops.push(Op::Send { h: s, id: g.id(), work: vec![t] });
        }
    }
    // virtual time passes, with a little traffic (bounded so that fast intervals do not flood the run)
    let longest = longest.min(shortest * 120);
    for c in 0..nclients {
        for _ in 0..g.range(1, 3) {
            fam.sc.clients[c].ops.push(Op::Sleep(g.range(1, longest * 3)));
            if g.chance(1, 3) {
                let s = g.pick(&fam.slots[c].any());
                let k = fam.slots[c].get(s).unwrap();
                let op = crate::props::c01::submission(g, k, s);
                fam.sc.clients[c].ops.push(op);
            }
        }
    }
    apply_cause(g, &mut fam, cause);
    // and some more time after the termination
    fam.sc.clients[0].ops.push(Op::Sleep(g.range(1, longest * 2)));
    fam.sc.sched = g.sched(true);
    fam.sc.settle_ns = longest * 2;
    fam.sc
}

pub fn check(v: &View) -> Vec<Violation> {
    let mut out = vec![];
    let ideal = v.sc.sched.racing_per_mille == 0;
    for a in v.actors.values() {
        let Some(aidx) = a.aidx else { continue };
        if aidx >= AIDX_SVC_A || v.actors_of(aidx).len() != 1 {
            continue;
        }
        let spec = v.sc.spec_of(aidx);
        // registrations and submissions per timer
        #[derive(Default)]
        struct T {
            kind: Option<TimerKind>,
            period: u64,
            reg_vt: u64,
            reg_seq: u64,
            subs: Vec<(u64, u64, u32)>, // (seq, vtime, n)
        }
        let mut timers: BTreeMap<(u32, u32, u32), T> = BTreeMap::new();
        for r in &v.out.log {
            match &r.ev {
                Ev::TimerReg { aidx: x, inst, inc, timer, kind, period } if *x == aidx => {
                    let t = timers.entry((*inst, *inc, *timer)).or_default();
                    t.kind = Some(*kind);
                    t.period = *period;
                    t.reg_vt = r.st.vtime;
                    t.reg_seq = r.st.seq;
                }
                Ev::TimerSubmit { aidx: x, inst, reg_inc, timer, n } if *x == aidx => {
                    timers.entry((*inst, *reg_inc, *timer)).or_default().subs.push((r.st.seq, r.st.vtime, *n));
                }
                _ => {}
            }
        }
        let dead = a.dead;
        let dead_vt = if dead.is_some() { a.dead_vt } else { v.out.outcome.vtime_end };
        let restarts: Vec<u64> = v.cbs_of(a).filter(|c| c.cb == Cb::Started).map(|c| c.enter).skip(1).collect();
        for ((_, _, id), t) in &timers {
            let Some(kind) = t.kind else { continue };
            // a restart aborts the timers of the previous incarnation: expectations about "how
            // many ticks while the actor lived" end there
            let restarted_after_reg = restarts.iter().any(|r| *r > t.reg_seq);
            let sig = format!("{kind:?}");
            // nothing fires into a terminated actor
            for (seq, vt, n) in &t.subs {
                if dead.is_some_and(|d| *seq > d) {
                    out.push(violation(P, "fired-after-termination", &sig, format!("actor {aidx}: timer {id} ({kind:?}) submission #{n} at seq {seq} / t={vt} after the actor had terminated at seq {:?}", dead)));
                }
                if *vt < t.reg_vt + t.period {
                    out.push(violation(P, "fired-early", &sig, format!("actor {aidx}: timer {id} ({kind:?}, period {}) registered at t={} fired at t={vt}", t.period, t.reg_vt)));
                }
            }
            match kind {
                TimerKind::Interval | TimerKind::IntervalWith => {
                    for w in t.subs.windows(2) {
                        crate::log::probe("c10_spacing_checked");
                        if w[1].1 < w[0].1 + t.period {
                            out.push(violation(P, "interval-too-fast", &sig, format!("actor {aidx}: timer {id} ({kind:?}, period {}) submitted #{} at t={} and #{} at t={}", t.period, w[0].2, w[0].1, w[1].2, w[1].1)));
                        }
                        if w[1].2 != w[0].2 + 1 {
                            out.push(violation(P, "interval-skipped-or-repeated", &sig, format!("actor {aidx}: timer {id} submission numbers {} then {}", w[0].2, w[1].2)));
                        }
                    }
                    // exact schedule on the ideal clock where sending cannot wait
                    let never_waits = kind == TimerKind::Interval || spec.effective_mailbox().is_none();
                    if ideal && never_waits {
                        crate::log::probe("c10_exact_schedule_checked");
                        for (i, (_, vt, _)) in t.subs.iter().enumerate() {
                            let want = t.reg_vt + (i as u64 + 1) * t.period;
                            if *vt != want {
                                out.push(violation(P, "interval-off-schedule", &sig, format!("actor {aidx}: timer {id} ({kind:?}, period {}) registered at t={}: submission #{i} at t={vt}, expected t={want}", t.period, t.reg_vt)));
                                break;
                            }
                        }
                        // exactly k submissions after k periods: none missing while the actor lived
                        // (a tick due at the very instant of death may or may not happen)
                        let lived = dead_vt.saturating_sub(t.reg_vt);
                        let min_expected = if lived == 0 { 0 } else { (lived - 1) / t.period };
                        let strong_gone = crate::census::census(v, aidx).t0().is_some_and(|t0| t0 < dead.unwrap_or(u64::MAX));
                        if (t.subs.len() as u64) < min_expected && !restarted_after_reg && !strong_gone && !v.fault_injected(a) && v.out.outcome.cap_phase == 0 {
                            out.push(violation(P, "interval-ticks-missing", &sig, format!("actor {aidx}: timer {id} ({kind:?}, period {}) registered at t={} produced {} submissions, but the actor lived until t={dead_vt} (expected at least {min_expected})", t.period, t.reg_vt, t.subs.len())));
                        }
                    }
                }
                TimerKind::DelayedSend | TimerKind::DelayedExec => {
                    crate::log::probe("c10_oneshot_checked");
                    if t.subs.len() > 1 {
                        out.push(violation(P, "one-shot-fired-twice", &sig, format!("actor {aidx}: timer {id} ({kind:?}) fired {} times", t.subs.len())));
                    }
                    // exactly once if the actor outlives it
                    let due = t.reg_vt + t.period;
                    let strong_gone = crate::census::census(v, aidx).t0().is_some_and(|t0| t0 < dead.unwrap_or(u64::MAX));
                    if t.subs.is_empty() && !restarted_after_reg && dead_vt > due && ideal && v.out.outcome.cap_phase == 0 && !(kind == TimerKind::DelayedSend && strong_gone) {
                        out.push(violation(P, "one-shot-never-fired", &sig, format!("actor {aidx}: timer {id} ({kind:?}, delay {}) registered at t={} never fired although the actor lived until t={dead_vt}", t.period, t.reg_vt)));
                    }
                }
            }
            if dead.is_some() && matches!(kind, TimerKind::Interval | TimerKind::IntervalWith) {
                crate::log::probe("c10_died_with_pending_timer");
            }
        }
        // timers never keep the actor alive: after the last strong handle is gone it terminates
        if !timers.is_empty() && v.stop_requests(aidx).is_empty() && !v.fault_injected(a) {
            let cen = crate::census::census(v, aidx);
            if let Some(t0) = cen.t0() {
                if t0 < v.phase_seq(Phase::ClientsDone) && v.out.outcome.cap_phase == 0 && !cen.lib_temporaries_possible && !cen.maybe_at(t0) {
                    crate::log::probe("c10_last_drop_with_timer");
                    // promptly, on the ideal clock: an idle actor notices the last drop in the same instant
                    if ideal && !v.busy_at(a, t0) {
                        let t0_vt = v.vtime_at(t0);
                        let term_vt = v.cbs_of(a).filter(|c| c.cb == Cb::Stopped && c.enter > t0).map(|c| c.enter_vt).next().or(a.dead.map(|_| a.dead_vt));
                        if term_vt.is_none_or(|t| t > t0_vt) {
                            out.push(violation(P, "timer-kept-actor-alive", "lingered", format!("actor {aidx}: idle when its last strong handle went away at seq {t0} (t={t0_vt}) with timers registered, but it only began to terminate at t={term_vt:?} (dead {:?})", a.dead)));
                        }
                    }
                    let hd = v.phase_seq(Phase::HandlesDropped);
                    if a.dead.is_none_or(|d| d > hd) && !v.busy_at(a, hd) {
                        out.push(violation(P, "timer-kept-actor-alive", "", format!("actor {aidx}: last strong handle gone at seq {t0}, timers registered, but the actor was still running when the epilogue began")));
                    }
                }
            }
        }
        // all timer tasks of the actor end with it
        for tt in v.timers.iter().filter(|t| t.parent_task == a.task) {
            if let Some(d) = a.dead {
                match tt.dead {
                    None if v.out.outcome.quiescent_at_end => out.push(violation(P, "timer-task-leaked", "", format!("actor {aidx}: timer task {} is still alive at quiescence although the actor terminated at seq {d}", tt.task))),
                    Some(_) if ideal && tt.dead_vt > a.dead_vt => out.push(violation(P, "timer-task-outlived-actor", "", format!("actor {aidx}: timer task {} ended at t={} although the actor terminated at t={}", tt.task, tt.dead_vt, a.dead_vt))),
                    _ => {}
                }
            }
        }
    }
    if v.out.outcome.quiescent_at_end && v.sc.drop_handles {
        for (id, kind) in &v.out.alive_at_end {
            if *kind == KIND_LIB {
                out.push(violation(P, "timer-task-leaked", "", format!("timer task {id} is alive at quiescence")));
            }
        }
    }
    out
}

pub fn nontrivial(v: &View) -> bool {
    let mut per: BTreeMap<(u32, u32, u32), u32> = BTreeMap::new();
    let mut reg = false;
    for r in &v.out.log {
        match &r.ev {
            Ev::TimerSubmit { inst, reg_inc, timer, .. } => *per.entry((*inst, *reg_inc, *timer)).or_default() += 1,
            Ev::TimerReg { .. } => reg = true,
            _ => {}
        }
    }
    per.values().any(|n| *n >= 2) || (reg && v.actors.values().any(|a| a.dead.is_some_and(|d| d < v.phase_seq(Phase::HandlesDropped))))
}
