//! C16 — children live exactly as long as their parent and receive its broadcasts.
use super::PropDef;
use crate::analysis::*;
use crate::log::*;
use crate::model::*;
use crate::sgen::*;
use std::collections::BTreeMap;

const P: &str = "C16";

pub fn def() -> PropDef {
    PropDef {
        id: P,
        level: "exploration",
        generate,
        check,
        nontrivial,
        rule: "generated actor trees up to depth 3 / 6 nodes; children registered in started() or from handlers under () (add_child), Msg and Topic1 (register_child), some of them also held from outside; broadcasts of each type at random positions; the root (and sometimes an inner node) terminated by every cause (stop, halt, Context::stop, last handle dropped, started error, handler panic, task cancellation) at any time; x seeded schedules; non-trivial = depth >= 2 and the parent died while a child still had accepted messages to handle, or a broadcast reached two or more children; distinct = distinct order of client-op and callback events",
        needed_probes: &["c16_child_outlived_check", "c16_release_checked", "c16_broadcast_checked", "c16_external_holder", "c16_depth3", "c16_parent_failed"],
        quick_runs: 200_000,
        thorough_runs: 2_000_000,
        block: 1,
        flavours: &["tokio"],
        outcome: None,
        extra_profiles: &[],
        adapt: None,
    }
}

pub fn generate(g: &mut G, _index: u64) -> Scenario {
    let mut sc = Scenario::empty(0);
    let nodes = g.range(2, 6) as usize;
    // parent of node i (i >= 1) is a node < i with depth < 3
    let mut depth = vec![1u32];
    let mut parent = vec![usize::MAX];
    for i in 1..nodes {
        let cands: Vec<usize> = (0..i).filter(|p| depth[*p] < 3).collect();
        let p = g.pick(&cands);
        parent.push(p);
        depth.push(depth[p] + 1);
    }
    let keys = [ChildKey::Unit, ChildKey::Msg, ChildKey::Topic1];
    for i in 0..nodes {
        let mut spec = ActorSpec { entry: if g.chance(1, 4) { Entry::BuilderSpawn } else { Entry::Spawn }, mailbox: g.mailbox(), stopped_yields: g.below(2) as u32, ..Default::default() };
        if i == 0 && spec.entry == Entry::BuilderSpawn {
            spec.restart = g.pick(&[Restart::Default, Restart::Recreate]);
        }
        if i > 0 && g.chance(1, 4) {
            // a child whose `started()` takes a while: broadcasts reach its mailbox, and its parent
            // may be gone, before it has returned
            spec.on_start.push(if g.chance(1, 2) { Work::Sleep(g.range(5, 40)) } else { Work::Yield(g.range(1, 3) as u32) });
        }
        sc.actors.push(spec);
    }
    let mut late: Vec<(usize, usize, ChildKey)> = vec![]; // (parent, child, key) added from a handler
    for i in 1..nodes {
        let key = g.pick(&keys);
        if parent[i] == 0 && g.chance(1, 4) {
            late.push((parent[i], i, key));
        } else {
            sc.actors[parent[i]].on_start.push(Work::Child { spec: i as ActorIdx, under: key });
        }
    }
    // root in the hands of client 0
    let mut ops = vec![Op::Spawn { spec: 0, slot: 0 }, Op::Ping { h: 0 }];
    for (_, c, key) in &late {
        ops.push(Op::Call { h: 0, id: g.id(), work: vec![Work::Child { spec: *c as ActorIdx, under: *key }] });
    }
    // outside holders for some children
    let mut held: Vec<usize> = vec![];
    for i in 1..nodes {
        if g.chance(1, 4) {
            held.push(i);
        }
    }
    let mut slot = 1;
    let mut child_slots: BTreeMap<usize, Slot> = BTreeMap::new();
    ops.push(Op::Yield(g.range(2, 5) as u32));
    for i in &held {
        ops.push(Op::Acquire { actor: *i as ActorIdx, slot });
        child_slots.insert(*i, slot);
        slot += 1;
    }
    // traffic: broadcasts through the root, messages to held children, work that keeps children busy
    for _ in 0..g.range(1, 6) {
        match g.below(4) {
            0 | 1 => {
                let key = g.pick(&keys);
                let op = if g.chance(1, 2) {
                    Op::Send { h: 0, id: g.id(), work: vec![Work::Broadcast { key, id: g.id() }] }
                } else {
                    Op::Call { h: 0, id: g.id(), work: vec![Work::Broadcast { key, id: g.id() }] }
                };
                ops.push(op);
            }
            2 => {
                if let Some((_, s)) = child_slots.iter().next() {
                    if g.chance(1, 3) {
                        // a child terminates on its own while its parent lives on
                        ops.push(Op::Stop { h: *s });
                        ops.push(Op::Yield(g.range(1, 4) as u32));
                    } else {
                        ops.push(Op::Send { h: *s, id: g.id(), work: vec![Work::Sleep(g.range(1, 10))] });
                    }
                }
            }
            _ => {
                if g.chance(1, 3) {
                    // a restart is not a termination: children stay
                    ops.push(Op::Restart { h: 0 });
                    ops.push(Op::Ping { h: 0 });
                } else {
                    ops.push(Op::Yield(g.range(1, 3) as u32))
                }
            }
        }
    }
    // the root terminates
    let cause = g.pick(&[Cause::Stop, Cause::Halt, Cause::CtxStop, Cause::LastDrop, Cause::StartErr, Cause::HandlerPanic, Cause::CancelPoll, Cause::CancelStep, Cause::None]);
    match cause {
        Cause::Stop => ops.push(Op::Stop { h: 0 }),
        Cause::Halt => {
            ops.push(Op::Clone { h: 0, to: 9 });
            ops.push(Op::Halt { h: 9 });
        }
        Cause::CtxStop => ops.push(Op::Send { h: 0, id: g.id(), work: vec![Work::CtxStop] }),
        Cause::LastDrop => ops.push(Op::Drop { h: 0 }),
        Cause::StartErr => sc.faults.push(Fault { actor: 0, kind: FaultKind::StartErr { nth: 0 } }),
        Cause::HandlerPanic => sc.faults.push(Fault { actor: 0, kind: FaultKind::PanicAtCb { k: g.range(1, 5) as u32 } }),
        Cause::CancelPoll => sc.faults.push(Fault { actor: 0, kind: FaultKind::CancelBeforePoll { j: g.range(2, 8) as u32 } }),
        Cause::CancelStep => sc.faults.push(Fault { actor: 0, kind: FaultKind::CancelAtStep { s: g.range(8, 60) } }),
        _ => {}
    }
    if g.chance(1, 5) && nodes > 2 {
        // an inner node fails on its own
        sc.faults.push(Fault { actor: 1, kind: FaultKind::PanicAtCb { k: g.range(1, 3) as u32 } });
    }
    ops.push(Op::Sleep(g.range(5, 40)));
    // a held child keeps answering after its parent is gone
    for (_, s) in child_slots.iter() {
        ops.push(Op::Call { h: *s, id: g.id(), work: vec![] });
    }
    sc.clients.push(ClientSpec { ops });
    sc.sched = g.sched(true);
    sc.settle_ns = 100;
    sc
}

pub fn check(v: &View) -> Vec<Violation> {
    let mut out = vec![];
    if v.out.outcome.cap_phase != 0 {
        return out;
    }
    // parent relation from the log
    let mut added: Vec<(u64, ActorIdx, ActorIdx, ChildKey)> = vec![]; // (seq, parent, child, key)
    for r in &v.out.log {
        if let Ev::ChildAdded { parent, child, key, .. } = &r.ev {
            added.push((r.st.seq, *parent, *child, *key));
        }
    }
    let acquired = |c: ActorIdx| v.ops.iter().any(|o| matches!(o.inner, Op::Acquire { actor, .. } if *actor == c) && matches!(o.res, Some(Res::Handle(true))));
    let depth_of = |mut c: ActorIdx| {
        let mut d = 1;
        while let Some((_, p, _, _)) = added.iter().find(|a| a.2 == c) {
            c = *p;
            d += 1;
            if d > 6 {
                break;
            }
        }
        d
    };
    for (seq, p, c, _key) in &added {
        let (Some(pa), Some(ca)) = (v.actor_of(*p), v.actor_of(*c)) else { continue };
        if depth_of(*c) >= 3 {
            crate::log::probe("c16_depth3");
        }
        let outside = acquired(*c);
        if outside {
            crate::log::probe("c16_external_holder");
        }
        let child_faulted = v.fault_injected(ca);
        let child_stop_requested = !v.stop_requests(*c).is_empty();
        if v.fault_injected(pa) {
            crate::log::probe("c16_parent_failed");
        }
        // the registration only counts if the parent really kept it (it did not die in that very poll)
        let registered = pa.dead.is_none_or(|d| d > *seq);
        if !registered || child_faulted || child_stop_requested {
            continue;
        }
        crate::log::probe("c16_child_outlived_check");
        let child_end = v.cbs_of(ca).filter(|x| x.cb == Cb::Stopped).map(|x| x.enter).next().or(ca.dead);
        match (pa.dead, child_end) {
            (None, Some(e)) => out.push(violation(P, "child-ended-before-parent", "", format!("child {c} of parent {p} ended at seq {e} although its parent is still running"))),
            (Some(pd), Some(e)) if e < pd => out.push(violation(P, "child-ended-before-parent", "", format!("child {c} of parent {p} ended at seq {e}, before its parent's task ended at {pd}"))),
            _ => {}
        }
        if let Some(pd) = pa.dead {
            if !outside {
                crate::log::probe("c16_release_checked");
                if v.out.outcome.quiescent_at_end {
                    // released: finishes what it had accepted, then stops gracefully
                    if ca.dead.is_none() {
                        out.push(violation(P, "child-not-released", "", format!("child {c}: its parent {p} terminated at seq {pd} and nobody else holds it, but it never terminated")));
                    } else if !v.graceful(ca) {
                        out.push(violation(P, "child-release-not-graceful", "", format!("child {c}: released by its parent {p} but ended without a completed stopped() (how {:?})", ca.how)));
                    }
                    // before the epilogue already: nothing but the parent held it
                    if ca.dead.is_some_and(|d| d > v.phase_seq(Phase::HandlesDropped)) && pd < v.phase_seq(Phase::ClientsDone) && !v.busy_at(ca, v.phase_seq(Phase::HandlesDropped)) {
                        out.push(violation(P, "child-not-released", "late", format!("child {c}: parent {p} terminated at seq {pd} but the child only ended in the epilogue (at {:?})", ca.dead)));
                    }
                }
            } else if ca.dead.is_some_and(|d| d < v.phase_seq(Phase::HandlesDropped)) {
                out.push(violation(P, "externally-held-child-ended", "", format!("child {c} is also held from outside but ended at {:?}, before that handle was dropped", ca.dead)));
            }
        }
    }
    // broadcasts: exactly once to every child registered under that type at that moment, to no other
    for r in &v.out.log {
        let Ev::Broadcast { parent, key, id, .. } = &r.ev else { continue };
        let b = r.st.seq;
        let Some(pa) = v.actor_of(*parent) else { continue };
        if pa.dead.is_some_and(|d| d < b) {
            continue;
        }
        // unit broadcasts carry no id: checked by count below
        for (seq, p, c, k) in &added {
            if p != parent {
                continue;
            }
            let Some(ca) = v.actor_of(*c) else { continue };
            let cb = match key {
                ChildKey::Unit => continue,
                ChildKey::Msg => Cb::Msg,
                ChildKey::Topic1 => Cb::Topic(1),
            };
            let n = v.cbs_of(ca).filter(|x| x.cb == cb && x.id == *id).count();
            let should = *seq < b && k == key;
            crate::log::probe("c16_broadcast_checked");
            if should {
                let alive = ca.dead.is_none_or(|d| d > b) && v.stop_requests(*c).iter().all(|s| s.begin > b) && !v.fault_injected(ca);
                // the child is released when the parent dies; a message queued before that is still handled
                let parent_failed_midway = v.fault_injected(pa) && pa.dead.is_some_and(|d| d < b + 3);
                if alive && n != 1 && v.out.outcome.quiescent_at_end && !parent_failed_midway {
                    out.push(violation(P, "broadcast-not-delivered-once", &format!("{key:?}"), format!("broadcast {id} ({key:?}) of parent {parent} at seq {b}: child {c} registered under {k:?} at {seq} handled it {n} times")));
                }
            } else if n > 0 {
                out.push(violation(P, "broadcast-to-wrong-child", &format!("{key:?}"), format!("broadcast {id} ({key:?}) of parent {parent} at seq {b} was handled by child {c} registered under {k:?} at seq {seq}")));
            }
        }
    }
    // unit broadcasts by count
    for (seq, p, c, k) in &added {
        let Some(ca) = v.actor_of(*c) else { continue };
        if v.fault_injected(ca) || !v.stop_requests(*c).is_empty() {
            continue;
        }
        let Some(pa) = v.actor_of(*p) else { continue };
        let sent = v.out.log.iter().filter(|r| matches!(&r.ev, Ev::Broadcast { parent, key: ChildKey::Unit, .. } if parent == p) && r.st.seq > *seq && pa.dead.is_none_or(|d| d > r.st.seq)).count();
        let got = v.cbs_of(ca).filter(|x| x.cb == Cb::Unit).count();
        let expect = if *k == ChildKey::Unit { sent } else { 0 };
        if got != expect && v.out.outcome.quiescent_at_end && !v.fault_injected(pa) {
            out.push(violation(P, if got > expect { "broadcast-to-wrong-child" } else { "broadcast-not-delivered-once" }, "Unit", format!("child {c} (registered under {k:?}) of parent {p} handled {got} unit broadcasts, expected {expect}")));
        }
    }
    // externally held children keep answering
    for o in v.ops.iter().filter(|o| matches!(o.inner, Op::Call { .. }) && o.ended() && o.target.is_some_and(|t| t > 0)) {
        let t = o.target.unwrap();
        if let Some(ca) = v.actor_of(t) {
            if !v.fault_injected(ca) && v.stop_requests(t).is_empty() && !matches!(o.res, Some(Res::Reply(_))) && o.hk == Some(HKind::Addr) {
                out.push(violation(P, "externally-held-child-unreachable", "", format!("call to child {t} held from outside returned {:?}", o.res)));
            }
        }
    }
    out
}

pub fn nontrivial(v: &View) -> bool {
    let mut reached: BTreeMap<u64, u32> = BTreeMap::new();
    for c in v.cbs.iter().filter(|c| c.aidx > 0 && matches!(c.cb, Cb::Msg | Cb::Topic(1))) {
        *reached.entry(c.id).or_default() += 1;
    }
    let multi = reached.values().any(|n| *n >= 2);
    let Some(root) = v.actor_of(0) else { return false };
    let Some(rd) = root.dead else { return multi };
    let child_busy_after = v.actors.values().any(|a| a.aidx.is_some_and(|x| x > 0 && x < AIDX_SVC_A) && v.handler_cbs_of(a).any(|c| c.enter > rd));
    multi || child_busy_after
}
