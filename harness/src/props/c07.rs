//! C07 — restart keeps identity and mailbox and yields a freshly started incarnation.
use super::PropDef;
use crate::analysis::*;
use crate::log::*;
use crate::model::*;
use crate::sgen::*;
use std::collections::BTreeMap;

const P: &str = "C07";

pub fn def() -> PropDef {
    PropDef {
        id: P,
        level: "exploration",
        generate,
        check,
        nontrivial,
        rule: "client programs of 1-3 clients with 0-4 restart requests (Addr::restart, Context::restart) at any position among messages through all handle kinds; restart strategy default / recreate-from-default / non-restartable; interval, interval_with, delayed_send and delayed_exec timers registered in started and in handlers; started failing on the n-th start; x seeded schedules on the virtual clock; history tagged with incarnation numbers, timers with the incarnation that registered them; non-trivial = a restart was processed with messages handled on both sides of it (or with a live timer); distinct = distinct order of client-op and callback events",
        needed_probes: &["c07_boundary_checked", "c07_recreate_seen", "c07_nonrestartable_request", "c07_restart_with_live_timer", "c07_start_error_on_restart"],
        quick_runs: 200_000,
        thorough_runs: 2_000_000,
        block: 1,
        flavours: &["tokio"],
        outcome: None,
        extra_profiles: &[],
        adapt: None,
    }
}

fn timer(g: &mut G, id: u32) -> Work {
    Work::Timer(TimerSpec {
        id,
        kind: g.pick(&[TimerKind::Interval, TimerKind::IntervalWith, TimerKind::DelayedSend, TimerKind::DelayedExec]),
        period: g.range(2, 30),
        handler_sleep: 0,
    })
}

pub fn generate(g: &mut G, _index: u64) -> Scenario {
    let restart = g.pick(&[Restart::Default, Restart::Default, Restart::Recreate, Restart::Recreate, Restart::NonRestartable]);
    let mut spec = ActorSpec {
        mailbox: g.mailbox(),
        restart,
        entry: if g.chance(1, 2) { Entry::BuilderSpawnOwning } else { Entry::BuilderSpawn },
        stopped_yields: g.below(2) as u32,
        ..Default::default()
    };
    let with_timers = g.chance(1, 2);
    if with_timers {
        for t in 0..g.range(1, 2) {
            spec.on_start.push(timer(g, t as u32));
        }
    }
    if g.chance(1, 4) {
        spec.on_start.push(if g.chance(1, 2) { Work::Yield(1) } else { Work::Sleep(g.range(3, 40)) });
    }
    if with_timers && g.chance(1, 4) {
        // registered by the incarnation that is ending: it must not fire into the next one
        spec.stopped_timer = Some(TimerSpec { id: 5, kind: g.pick(&[TimerKind::Interval, TimerKind::DelayedSend, TimerKind::DelayedExec]), period: g.range(2, 30), handler_sleep: 0 });
    }
    let kinds = [HKind::Addr, HKind::Sender, HKind::Caller, HKind::WeakSender, HKind::WeakCaller];
    let nclients = g.range(1, 3) as usize;
    let mut fam = one_actor(g, spec, nclients, &kinds, (1, 2));
    fill_submissions(g, &mut fam, 8, 0);
    // timers registered inside handlers
    if with_timers && g.chance(1, 2) {
        let at = fam.pos(g, 0);
        let t = timer(g, 7);
        fam.insert(0, at, vec![Op::Send { h: PRIMARY, id: g.id(), work: vec![t] }]);
    }
    // restart requests
    for _ in 0..g.below(5) {
        let c = g.below(nclients as u64) as usize;
        let at = fam.pos(g, c);
        let addr_slots = fam.slots[c].of_kind(&[HKind::Addr, HKind::Owning]);
        let any = fam.slots[c].any();
        let op = if !addr_slots.is_empty() && g.chance(1, 2) {
            Op::Restart { h: g.pick(&addr_slots) }
        } else {
            let s = g.pick(&any);
            match fam.slots[c].get(s).unwrap() {
                HKind::Caller | HKind::WeakCaller => Op::Call { h: s, id: g.id(), work: vec![Work::CtxRestart] },
                _ => Op::Send { h: s, id: g.id(), work: vec![Work::CtxRestart] },
            }
        };
        fam.insert(c, at, vec![op]);
    }
    if g.chance(1, 8) {
        fam.sc.faults.push(Fault { actor: 0, kind: FaultKind::StartErr { nth: g.range(1, 2) as u32 } });
    }
    // let virtual time pass so that timers of old incarnations get their chance to misbehave
    for c in 0..nclients {
        if g.chance(1, 2) {
            let at = fam.pos(g, c);
            fam.insert(c, at, vec![Op::Sleep(g.range(5, 80))]);
        }
    }
    fam.sc.clients[0].ops.push(Op::Sleep(g.range(10, 100)));
    if g.chance(1, 2) {
        fam.sc.clients[0].ops.push(Op::Call { h: PRIMARY, id: g.id(), work: vec![] });
    }
    fam.sc.sched = g.sched(true);
    fam.sc.settle_ns = 150;
    fam.sc
}

pub fn check(v: &View) -> Vec<Violation> {
    let mut out = vec![];
    for a in v.actors.values() {
        let Some(aidx) = a.aidx else { continue };
        if aidx >= AIDX_SVC_A || v.actors_of(aidx).len() != 1 {
            continue;
        }
        let spec = v.sc.spec_of(aidx);
        if spec.entry.on_stream() {
            continue;
        }
        let strategy = format!("{:?}", spec.restart);
        let cbs: Vec<&CbRec> = v.cbs_of(a).collect();
        // incarnations: index of each Started callback
        let starts: Vec<&CbRec> = cbs.iter().copied().filter(|c| c.cb == Cb::Started).collect();
        // accepted restart requests in enqueue order
        let mut reqs: Vec<u64> = vec![];
        for o in v.ops.iter().filter(|o| o.target == Some(aidx) && matches!(o.inner, Op::Restart { .. }) && matches!(o.res, Some(Res::Ok))) {
            reqs.push(o.end.unwrap());
        }
        for r in &v.out.log {
            if let Ev::CtxRes { aidx: x, what: CtxOp::Restart, ok: true, .. } = &r.ev {
                if *x == aidx {
                    reqs.push(r.st.seq);
                }
            }
        }
        reqs.sort();
        if spec.restart == Restart::NonRestartable {
            if !reqs.is_empty() {
                crate::log::probe("c07_nonrestartable_request");
            }
            if starts.len() > 1 || (cbs.iter().any(|c| c.cb == Cb::Stopped) && cbs.last().is_some_and(|c| c.cb != Cb::Stopped)) {
                out.push(violation(P, "non-restartable-was-restarted", "", format!("actor {aidx}: non-restartable actor shows {} started callbacks / a stopped callback in mid-life", starts.len())));
            }
            // "ignores the request" includes its timers: they keep their schedule
            if !reqs.is_empty() {
                for x in super::c10::check(v) {
                    if matches!(x.rule.as_str(), "interval-ticks-missing" | "one-shot-never-fired" | "interval-off-schedule" | "interval-skipped-or-repeated") {
                        out.push(violation(P, "ignored-restart-affected-timers", &x.rule, x.detail));
                    }
                }
            }
            continue;
        }
        // boundary k (0-based) = the Stopped callback preceding starts[k+1], and starts[k+1]
        for k in 0..starts.len().saturating_sub(1) {
            let new = starts[k + 1];
            let old = starts[k];
            let Some(req) = reqs.get(k).copied() else {
                out.push(violation(P, "restart-without-request", &strategy, format!("actor {aidx}: incarnation {} started at seq {} but only {} restart requests had been accepted", k + 2, new.enter, reqs.len())));
                continue;
            };
            crate::log::probe("c07_boundary_checked");
            let stopped = cbs.iter().rev().find(|c| c.cb == Cb::Stopped && c.enter < new.enter).copied();
            match stopped {
                Some(s) if s.enter > old.enter && s.inst == old.inst => {}
                _ => out.push(violation(P, "restart-without-stopped", &strategy, format!("actor {aidx}: incarnation {} started at seq {} without stopped() on the previous value", k + 2, new.enter))),
            }
            match spec.restart {
                Restart::Default => {
                    if new.inst != old.inst {
                        out.push(violation(P, "default-restart-changed-value", &strategy, format!("actor {aidx}: default restart strategy but the value changed from instance {} to {}", old.inst, new.inst)));
                    }
                }
                Restart::Recreate => {
                    crate::log::probe("c07_recreate_seen");
                    if new.inst == old.inst {
                        out.push(violation(P, "recreate-kept-value", &strategy, format!("actor {aidx}: recreate-from-default strategy but instance {} was started again", old.inst)));
                    }
                    if new.inc != 1 {
                        out.push(violation(P, "recreate-not-fresh", &strategy, format!("actor {aidx}: recreated value reports started count {}", new.inc)));
                    }
                }
                Restart::NonRestartable => {}
            }
            if !new.ok {
                crate::log::probe("c07_start_error_on_restart");
            }
            // messages accepted before / submitted after the request are handled on the proper side
            let stop_enter = stopped.map(|s| s.enter).unwrap_or(new.enter);
            let new_ready = new.exit.unwrap_or(u64::MAX);
            for o in v.ops.iter().filter(|o| o.target == Some(aidx) && !o.skipped() && matches!(o.inner, Op::Send { .. } | Op::ForceSend { .. } | Op::Call { .. })) {
                let id = o.msg_id().unwrap();
                let Some(h) = cbs.iter().find(|c| c.id == id && matches!(c.cb, Cb::Msg | Cb::Ask)) else { continue };
                let accepted = matches!(o.res, Some(Res::Ok) | Some(Res::Reply(_)));
                if accepted && o.end.unwrap() < req && h.enter > stop_enter {
                    out.push(violation(P, "message-crossed-restart", &format!("{strategy}:before"), format!("actor {aidx}: message {id} accepted at seq {} before restart request #{k} (seq {req}) was handled at {} by the later incarnation (started {})", o.end.unwrap(), h.enter, new.enter)));
                }
                if o.begin > req && h.enter < new_ready {
                    out.push(violation(P, "message-crossed-restart", &format!("{strategy}:after"), format!("actor {aidx}: message {id} submitted at seq {} after restart request #{k} (seq {req}) was handled at {} by the earlier incarnation (new one ready at {})", o.begin, h.enter, new_ready)));
                }
            }
        }
        // timer provenance: nothing registered by incarnation i fires once incarnation i+1 is up
        // map (inst, inc-of-value) -> index in starts
        let mut idx_of: BTreeMap<(u32, u32), usize> = BTreeMap::new();
        for (i, s) in starts.iter().enumerate() {
            idx_of.insert((s.inst, s.inc), i);
        }
        let mut kinds: BTreeMap<(u32, u32, u32), TimerKind> = BTreeMap::new();
        for r in &v.out.log {
            match &r.ev {
                Ev::TimerReg { aidx: x, inst, inc, timer, kind, .. } if *x == aidx => {
                    kinds.insert((*inst, *inc, *timer), *kind);
                    // a restart processed while this timer is registered
                    if let Some(i) = idx_of.get(&(*inst, *inc)) {
                        if starts.len() > i + 1 {
                            crate::log::probe("c07_restart_with_live_timer");
                        }
                    }
                }
                Ev::TimerSubmit { aidx: x, inst, reg_inc, timer, n } if *x == aidx => {
                    let Some(i) = idx_of.get(&(*inst, *reg_inc)) else { continue };
                    if let Some(next) = starts.get(i + 1) {
                        // (the restart aborts the old timers between `stopped()` and the new
                        // `started()`: a submission once the new `started()` has begun is stale,
                        // not only once it has returned)
                        if r.st.seq > next.enter {
                            let kind = kinds.get(&(*inst, *reg_inc, *timer)).copied();
                            out.push(violation(
                                P,
                                "stale-timer-fired-after-restart",
                                &format!("{strategy}:{}", kind.map(|k| format!("{k:?}")).unwrap_or_default()),
                                format!("actor {aidx}: timer {timer} registered by incarnation {} fired (submission #{n}) at seq {} / t={} after the started() of incarnation {} had begun (seq {})", i + 1, r.st.seq, r.st.vtime, i + 2, next.enter),
                            ));
                        }
                    }
                }
                _ => {}
            }
        }
        // a failing started() during restart terminates the actor as failed
        if let Some(f) = starts.iter().skip(1).find(|s| s.exit.is_some() && !s.ok) {
            if cbs.iter().any(|c| c.enter > f.enter) {
                out.push(violation(P, "callbacks-after-failed-restart", &strategy, format!("actor {aidx}: started() failed during restart at seq {} but callbacks followed", f.enter)));
            }
            for o in v.ops.iter().filter(|o| o.target == Some(aidx) && matches!(o.inner, Op::Await { .. }) && o.ended()) {
                if matches!(o.res, Some(Res::Ok)) {
                    out.push(violation(P, "failed-restart-reported-graceful", &strategy, format!("actor {aidx}: started() failed during restart but awaiting the address returned Ok")));
                }
            }
        }
    }
    out
}

pub fn nontrivial(v: &View) -> bool {
    for a in v.actors.values() {
        let starts: Vec<&CbRec> = v.cbs_of(a).filter(|c| c.cb == Cb::Started).collect();
        if starts.len() < 2 {
            continue;
        }
        let b = starts[1].enter;
        let before = v.handler_cbs_of(a).any(|c| c.enter < b && matches!(c.cb, Cb::Msg | Cb::Ask));
        let after = v.handler_cbs_of(a).any(|c| c.enter > b && matches!(c.cb, Cb::Msg | Cb::Ask));
        let timers = v.out.log.iter().any(|r| matches!(r.ev, Ev::TimerReg { .. }) && r.st.seq < b);
        if (before && after) || timers {
            return true;
        }
    }
    false
}
