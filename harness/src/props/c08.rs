//! C08 — service registry: one live instance per type, spawned on demand, linearizable.
use super::PropDef;
use crate::analysis::*;
use crate::log::*;
use crate::model::*;
use crate::sgen::*;
use std::collections::{BTreeMap, BTreeSet, HashSet};

const P: &str = "C08";

pub fn def() -> PropDef {
    PropDef {
        id: P,
        level: "exploration",
        generate,
        check,
        nontrivial,
        rule: "concurrent histories of from_registry, setup, register, replace, unregister, try_from_registry, already_running, stop of a known instance and self-termination (Context::stop, panic) issued by 1-4 clients (<= 6 registry ops each) on 1-2 service types; every returned address is identified by a call; x seeded schedules; the recorded history (invoke/return stamped with the global event number, instance deaths pinned at the simulator's task-done event) is checked for linearizability against a sequential registry model by depth-first search with memoisation, plus a count of default instances spawned vs. required by the witness; non-trivial = two registry operations overlapped in time, or a lookup followed a termination; distinct = distinct order of client-op and callback events",
        needed_probes: &["c08_linearized", "c08_concurrent_ops", "c08_lookup_after_death", "c08_respawn_seen", "c08_register_rejected"],
        quick_runs: 200_000,
        thorough_runs: 2_000_000,
        block: 1,
        flavours: &["tokio"],
        outcome: None,
        extra_profiles: &[],
        adapt: None,
    }
}

pub fn generate(g: &mut G, _index: u64) -> Scenario {
    let mut sc = Scenario::empty(0);
    let two = g.chance(1, 3);
    // scenario actors = explicitly spawned service instances (for register / replace)
    let nclients = g.range(1, 4) as usize;
    for _c in 0..nclients {
        let mut ops = vec![];
        // slot usage: 0..3 addresses obtained, 4 freshly spawned instance, 5 replaced entry
        let mut have: Vec<Slot> = vec![];
        let n = if g.thorough && g.chance(1, 3) { g.range(4, 9) } else { g.range(1, 6) };
        for _ in 0..n {
            let svc = if two && g.chance(1, 2) { Tag::SvcB } else { Tag::SvcA };
            match g.below(12) {
                0..=2 => {
                    let to = g.below(3) as Slot;
                    if g.chance(1, 10) {
                        // a lookup that its client gives up half-way (it may or may not have
                        // spawned and registered an instance; either way there is one at most)
                        ops.push(Op::CancelAfter { polls: g.range(1, 2) as u32, op: Box::new(Op::FromRegistry { svc, to: 6 }) });
                    }
                    ops.push(Op::FromRegistry { svc, to });
                    ops.push(Op::Call { h: to, id: g.id(), work: vec![] });
                    if !have.contains(&to) {
                        have.push(to);
                    }
                }
                3 => ops.push(Op::Setup { svc }),
                4 | 5 => {
                    let spec = sc.actors.len() as ActorIdx;
                    sc.actors.push(ActorSpec { tag: svc, entry: if g.chance(1, 4) { Entry::BuilderSpawn } else { Entry::Spawn }, mailbox: g.mailbox(), ..Default::default() });
                    ops.push(Op::Spawn { spec, slot: 4 });
                    if g.chance(2, 3) {
                        ops.push(Op::Register { h: 4, replaced_to: 5 });
                    } else {
                        ops.push(Op::Replace { h: 4, replaced_to: 5 });
                    }
                    if g.chance(1, 2) {
                        ops.push(Op::Call { h: 5, id: g.id(), work: vec![] });
                    }
                }
                6 => {
                    ops.push(Op::Unregister { svc, to: 5 });
                    if g.chance(1, 2) {
                        ops.push(Op::Call { h: 5, id: g.id(), work: vec![] });
                    }
                }
                7 => {
                    let to = 3;
                    ops.push(Op::TryFromRegistry { svc, to });
                    ops.push(Op::Call { h: to, id: g.id(), work: vec![] });
                    ops.push(Op::Drop { h: to });
                }
                8 | 9 => ops.push(Op::AlreadyRunning { svc }),
                _ => {
                    // terminate a known instance
                    if let Some(h) = have.first().copied() {
                        match g.below(3) {
                            0 => ops.push(Op::Stop { h }),
                            1 => ops.push(Op::Send { h, id: g.id(), work: vec![Work::CtxStop] }),
                            _ => ops.push(Op::Send { h, id: g.id(), work: vec![Work::Panic] }),
                        }
                        if g.chance(1, 2) {
                            ops.push(Op::Yield(g.range(1, 4) as u32));
                        }
                    }
                }
            }
            g.maybe_yield(&mut ops);
        }
        sc.clients.push(ClientSpec { ops });
    }
    sc.sched = g.sched(false);
    sc.settle_ns = 50;
    sc
}

// ------------------------------------------------------------------------------------------
// history

#[derive(Clone, Debug, PartialEq, Eq, Hash)]
enum Kind {
    /// from_registry / setup; `ret` = identified instance (None: unknown)
    Lookup { ret: Option<u32>, is_setup: bool },
    Register { me: u32, ok: bool, replaced: bool },
    Replace { me: u32, replaced: bool },
    Unregister { some: bool, ret: Option<u32> },
    TryLookup { some: bool, ret: Option<u32> },
    AlreadyRunning { res: Option<bool> },
    /// the task of instance `inst` ended
    Death { inst: u32 },
}

#[derive(Clone, Debug)]
struct HOp {
    inv: u64,
    ret: u64,
    kind: Kind,
    what: String,
}

#[derive(Clone, Debug, PartialEq, Eq, Hash)]
struct Model {
    reg: Option<u32>,
    dead: BTreeSet<u32>,
    used_defaults: BTreeSet<u32>,
    /// a default instance spawned by the model whose identity is not known yet
    anonymous: bool,
}

const FRESH: u32 = u32::MAX;

fn alive(m: &Model, i: u32) -> bool {
    !m.dead.contains(&i)
}

/// apply op to the model; None = the model cannot return what the code returned
fn step(m: &Model, op: &Kind, defaults: &BTreeSet<u32>, contended: bool) -> Option<Model> {
    let mut n = m.clone();
    match op {
        Kind::Death { inst } => {
            n.dead.insert(*inst);
            Some(n)
        }
        Kind::Lookup { ret, .. } => {
            let cur_alive = m.reg.is_some_and(|i| i == FRESH || alive(m, i));
            if cur_alive {
                match (m.reg, ret) {
                    (Some(FRESH), Some(r)) => {
                        // the anonymous default instance gets its identity now
                        if defaults.contains(r) && !m.used_defaults.contains(r) {
                            n.reg = Some(*r);
                            n.used_defaults.insert(*r);
                            n.anonymous = false;
                            Some(n)
                        } else {
                            None
                        }
                    }
                    (Some(i), Some(r)) => {
                        if i == *r { Some(n) } else { None }
                    }
                    (_, None) => Some(n),
                    _ => None,
                }
            } else {
                // spawn a fresh default instance
                match ret {
                    Some(r) => {
                        if defaults.contains(r) && !m.used_defaults.contains(r) {
                            n.reg = Some(*r);
                            n.used_defaults.insert(*r);
                            Some(n)
                        } else {
                            None
                        }
                    }
                    None => {
                        if m.anonymous {
                            return None; // keep the search space small: one anonymous instance at a time
                        }
                        n.reg = Some(FRESH);
                        n.anonymous = true;
                        Some(n)
                    }
                }
            }
        }
        Kind::Register { me, ok, replaced } => {
            let cur_alive = m.reg.is_some_and(|i| i == FRESH || alive(m, i));
            if cur_alive {
                if *ok { None } else { Some(n) }
            } else {
                if !*ok || *replaced != m.reg.is_some() {
                    return None;
                }
                if m.reg == Some(FRESH) {
                    n.anonymous = false;
                }
                n.reg = Some(*me);
                Some(n)
            }
        }
        Kind::Replace { me, replaced } => {
            if *replaced != m.reg.is_some() {
                return None;
            }
            if m.reg == Some(FRESH) {
                n.anonymous = false;
            }
            n.reg = Some(*me);
            Some(n)
        }
        Kind::Unregister { some, ret } => {
            if *some != m.reg.is_some() {
                return None;
            }
            if let (Some(r), Some(i)) = (ret, m.reg) {
                if i != FRESH && i != *r {
                    return None;
                }
                if i == FRESH {
                    if !(defaults.contains(r) && !m.used_defaults.contains(r)) {
                        return None;
                    }
                    n.used_defaults.insert(*r);
                }
            }
            if m.reg == Some(FRESH) {
                n.anonymous = false;
            }
            n.reg = None;
            Some(n)
        }
        Kind::TryLookup { some, ret } => {
            let cur_alive = m.reg.is_some_and(|i| i == FRESH || alive(m, i));
            if *some {
                if !cur_alive {
                    return None;
                }
                match (m.reg, ret) {
                    (Some(FRESH), Some(r)) => {
                        if defaults.contains(r) && !m.used_defaults.contains(r) {
                            n.reg = Some(*r);
                            n.used_defaults.insert(*r);
                            n.anonymous = false;
                            Some(n)
                        } else {
                            None
                        }
                    }
                    (Some(i), Some(r)) => {
                        if i == *r { Some(n) } else { None }
                    }
                    _ => Some(n),
                }
            } else if cur_alive && !contended {
                None
            } else {
                Some(n)
            }
        }
        Kind::AlreadyRunning { res } => {
            let want = m.reg.map(|i| i == FRESH || alive(m, i));
            if *res == want { Some(n) } else { None }
        }
    }
}

fn linearizable(ops: &[HOp], defaults: &BTreeSet<u32>, nodes: &mut u64, busy: &[(u64, u64)]) -> Option<bool> {
    let n = ops.len();
    if n > 60 {
        return None;
    }
    let init = Model { reg: None, dead: BTreeSet::new(), used_defaults: BTreeSet::new(), anonymous: false };
    let mut seen: HashSet<(u64, Model)> = HashSet::new();
    fn dfs(done: u64, m: &Model, ops: &[HOp], defaults: &BTreeSet<u32>, seen: &mut HashSet<(u64, Model)>, nodes: &mut u64, busy: &[(u64, u64)]) -> Option<bool> {
        let n = ops.len();
        if done == (1u64 << n) - 1 {
            return Some(true);
        }
        *nodes += 1;
        if *nodes > 300_000 {
            return None;
        }
        if !seen.insert((done, m.clone())) {
            return Some(false);
        }
        // minimal return among pending ops: an op can be next only if it was invoked before that
        let min_ret = (0..n).filter(|i| done & (1 << i) == 0).map(|i| ops[i].ret).min().unwrap();
        for i in 0..n {
            if done & (1 << i) != 0 || ops[i].inv > min_ret {
                continue;
            }
            // contention: another registry op (on any service type: the lock is global) overlaps
            // this one in time
            let contended = busy.iter().any(|(a, b)| !(*a == ops[i].inv && *b == ops[i].ret) && *a < ops[i].ret && ops[i].inv < *b);
            if let Some(m2) = step(m, &ops[i].kind, defaults, contended) {
                match dfs(done | (1 << i), &m2, ops, defaults, seen, nodes, busy) {
                    Some(true) => return Some(true),
                    None => return None,
                    _ => {}
                }
            }
        }
        Some(false)
    }
    dfs(0, &init, ops, defaults, &mut seen, nodes, busy)
}

fn svc_of(o: &Op, v: &View, rec: &OpRec) -> Option<Tag> {
    match o {
        Op::FromRegistry { svc, .. } | Op::Setup { svc } | Op::Unregister { svc, .. } | Op::TryFromRegistry { svc, .. } | Op::AlreadyRunning { svc } => Some(*svc),
        Op::Register { .. } | Op::Replace { .. } => rec.target.map(|t| v.sc.spec_of(t).tag),
        _ => None,
    }
}

pub fn check(v: &View) -> Vec<Violation> {
    let mut out = vec![];
    // identity of what a client put into a slot: the next Call through that slot by the same client
    let identify = |rec: &OpRec, slot: Slot| -> Option<u32> {
        for o in v.ops.iter().filter(|o| o.client == rec.client && o.idx > rec.idx) {
            match o.inner {
                Op::Call { h, .. } if *h == slot => {
                    return match o.res {
                        Some(Res::Reply(r)) => Some(r.inst),
                        _ => None,
                    };
                }
                // the slot is overwritten before it was asked
                Op::FromRegistry { to, .. } | Op::TryFromRegistry { to, .. } | Op::Unregister { to, .. } if *to == slot => return None,
                Op::Register { replaced_to, .. } | Op::Replace { replaced_to, .. } if *replaced_to == slot => return None,
                Op::Drop { h } if *h == slot => return None,
                _ => {}
            }
        }
        None
    };
    // every registry operation of the run (both service types, brokers excluded: none here)
    let busy: Vec<(u64, u64)> = v
        .ops
        .iter()
        .filter(|o| !o.skipped() && matches!(o.inner, Op::FromRegistry { .. } | Op::Setup { .. } | Op::Register { .. } | Op::Replace { .. } | Op::Unregister { .. } | Op::AlreadyRunning { .. } | Op::Spawn { .. }))
        .map(|o| (o.begin, o.end.unwrap_or(u64::MAX)))
        .collect();
    // one live instance per type: without register / replace / unregister in the run, two
    // instances that the registry spawned are never alive at the same time (whatever became of
    // the lookups that spawned them)
    for svc in [Tag::SvcA, Tag::SvcB] {
        let default_aidx = if svc == Tag::SvcA { AIDX_SVC_A } else { AIDX_SVC_B };
        let explicit = v.ops.iter().any(|o| !o.skipped() && matches!(o.inner, Op::Register { .. } | Op::Replace { .. } | Op::Unregister { .. } | Op::Spawn { .. }));
        if explicit || v.any_fault() {
            continue;
        }
        let mut lives: Vec<(u32, u64, u64)> = vec![];
        for r in &v.out.log {
            if let Ev::Created { inst, aidx, by_default: true } = &r.ev {
                if *aidx == default_aidx {
                    let dead = v.actors.values().find(|a| v.cbs_of(a).any(|c| c.inst == *inst)).and_then(|a| a.dead).unwrap_or(u64::MAX);
                    lives.push((*inst, r.st.seq, dead));
                }
            }
        }
        crate::log::probe("c08_single_instance_checked");
        for (i, a) in lives.iter().enumerate() {
            for b in lives.iter().skip(i + 1) {
                // (an instance that never ran a callback has no known end: only judge those that did)
                let known = |x: &(u32, u64, u64)| v.actors.values().any(|t| v.cbs_of(t).any(|c| c.inst == x.0));
                if known(a) && known(b) && a.1 < b.2 && b.1 < a.2 {
                    out.push(violation(P, "two-live-instances", &format!("{svc:?}"), format!("instances {} (seq {}..{}) and {} (seq {}..{}) of {svc:?} were both spawned by the registry and alive at the same time, without any register / replace / unregister", a.0, a.1, a.2, b.0, b.1, b.2)));
                }
            }
        }
    }
    for svc in [Tag::SvcA, Tag::SvcB] {
        let default_aidx = if svc == Tag::SvcA { AIDX_SVC_A } else { AIDX_SVC_B };
        let mut hist: Vec<HOp> = vec![];
        let mut optional: Vec<HOp> = vec![];
        let mut unknown_self = false;
        for rec in v.ops.iter().filter(|o| !o.skipped() && o.client != SETUP_CLIENT) {
            if svc_of(rec.inner, v, rec) != Some(svc) {
                continue;
            }
            let Some(ret) = rec.end else {
                unknown_self = true; // a registry op that never returned: C02's business
                continue;
            };
            let me = |rec: &OpRec| -> Option<u32> {
                // instance behind the handle being registered: spawned by the same client just before
                v.ops.iter().rev().find(|o| o.client == rec.client && o.idx < rec.idx && matches!(o.inner, Op::Spawn { .. })).and_then(|o| match o.res {
                    Some(Res::Spawned { inst }) => Some(*inst),
                    _ => None,
                })
            };
            let kind = match (rec.inner, rec.res.unwrap()) {
                (Op::FromRegistry { to, .. }, _) => Kind::Lookup { ret: identify(rec, *to), is_setup: false },
                (Op::Setup { .. }, _) => Kind::Lookup { ret: None, is_setup: true },
                (Op::Register { .. }, Res::Registered { replaced }) => match me(rec) {
                    Some(m) => Kind::Register { me: m, ok: true, replaced: *replaced },
                    None => {
                        unknown_self = true;
                        continue;
                    }
                },
                (Op::Register { .. }, Res::Err(_)) => Kind::Register { me: me(rec).unwrap_or(FRESH - 1), ok: false, replaced: false },
                (Op::Replace { .. }, Res::Registered { replaced }) => match me(rec) {
                    Some(m) => Kind::Replace { me: m, replaced: *replaced },
                    None => {
                        unknown_self = true;
                        continue;
                    }
                },
                (Op::Unregister { to, .. }, Res::Handle(b)) => Kind::Unregister { some: *b, ret: if *b { identify(rec, *to) } else { None } },
                (Op::TryFromRegistry { to, .. }, Res::Handle(b)) => Kind::TryLookup { some: *b, ret: if *b { identify(rec, *to) } else { None } },
                (Op::AlreadyRunning { .. }, Res::OptBool(b)) => Kind::AlreadyRunning { res: *b },
                _ => continue,
            };
            let hop = HOp { inv: rec.begin, ret, kind, what: format!("c{}#{} {:?} -> {:?}", rec.client, rec.idx, rec.inner, rec.res.unwrap()) };
            if rec.abandoned() {
                // an operation its client gave up half-way is a pending operation: it may have
                // taken effect at any moment after its invocation, or not at all
                optional.push(HOp { ret: u64::MAX, ..hop });
            } else {
                hist.push(hop);
            }
        }
        if hist.is_empty() || unknown_self || optional.len() > 3 {
            continue;
        }
        // instances of this service type and their deaths
        let mut defaults: BTreeSet<u32> = BTreeSet::new();
        let mut insts: BTreeMap<u32, Option<u64>> = BTreeMap::new();
        for r in &v.out.log {
            if let Ev::Created { inst, aidx, by_default } = &r.ev {
                if v.sc.spec_of(*aidx).tag == svc {
                    if *by_default && *aidx == default_aidx {
                        defaults.insert(*inst);
                    }
                    insts.insert(*inst, None);
                }
            }
        }
        for a in v.actors.values() {
            for c in v.cbs_of(a) {
                if let Some(d) = insts.get_mut(&c.inst) {
                    *d = a.dead;
                }
            }
        }
        let last = hist.iter().map(|h| h.ret).max().unwrap();
        for (inst, dead) in &insts {
            if let Some(d) = dead {
                if *d < last {
                    hist.push(HOp { inv: *d, ret: *d, kind: Kind::Death { inst: *inst }, what: format!("death of instance {inst}") });
                }
            }
        }
        hist.sort_by_key(|h| h.inv);
        let concurrent = hist.iter().enumerate().any(|(i, a)| hist.iter().skip(i + 1).any(|b| !matches!(a.kind, Kind::Death { .. }) && !matches!(b.kind, Kind::Death { .. }) && b.inv < a.ret));
        if concurrent {
            crate::log::probe("c08_concurrent_ops");
        }
        if hist.iter().any(|h| matches!(h.kind, Kind::Death { .. })) {
            crate::log::probe("c08_lookup_after_death");
        }
        if hist.iter().any(|h| matches!(h.kind, Kind::Register { ok: false, .. })) {
            crate::log::probe("c08_register_rejected");
        }
        let mut nodes = 0u64;
        let verdict = {
            let mut verdict = Some(false);
            for mask in 0..(1u32 << optional.len()) {
                let mut h = hist.clone();
                for (i, o) in optional.iter().enumerate() {
                    if mask & (1 << i) != 0 {
                        h.push(o.clone());
                    }
                }
                h.sort_by_key(|x| x.inv);
                match linearizable(&h, &defaults, &mut nodes, &busy) {
                    Some(true) => {
                        verdict = Some(true);
                        break;
                    }
                    None => verdict = None,
                    Some(false) => {}
                }
            }
            verdict
        };
        if !optional.is_empty() {
            crate::log::probe("c08_abandoned_lookup");
        }
        match verdict {
            Some(true) => {
                crate::log::probe("c08_linearized");
                if defaults.len() >= 2 {
                    crate::log::probe("c08_respawn_seen");
                }
            }
            None => crate::log::probe("c08_search_capped"),
            Some(false) => {
                // name the culprit for the signature: the operation kind whose removal makes the
                // history linearizable (first such), else "history"
                let mut culprit = "history".to_string();
                for i in 0..hist.len() {
                    if matches!(hist[i].kind, Kind::Death { .. }) {
                        continue;
                    }
                    let mut h2 = hist.clone();
                    h2.remove(i);
                    // removing a state-changing op is not sound in general; only use it to name read-only culprits
                    if matches!(hist[i].kind, Kind::AlreadyRunning { .. } | Kind::TryLookup { some: false, .. }) || matches!(hist[i].kind, Kind::Register { ok: false, .. }) {
                        let mut n2 = 0;
                        if linearizable(&h2, &defaults, &mut n2, &busy) == Some(true) {
                            culprit = match hist[i].kind {
                                Kind::AlreadyRunning { .. } => "already_running",
                                Kind::TryLookup { .. } => "try_from_registry",
                                _ => "register",
                            }
                            .to_string();
                            break;
                        }
                    }
                }
                let lines: Vec<String> = hist.iter().map(|h| format!("[{}..{}] {}", h.inv, h.ret, h.what)).collect();
                out.push(violation(P, "not-linearizable", &culprit, format!("service {svc:?}: no sequential order of the registry operations consistent with real time explains the results (default instances {:?}): {}", defaults, lines.join("; "))));
            }
        }
        // default instances spawned but never explained by the witness are caught by the model
        // (used_defaults); instances created and never registered would show as extra Created
        let lookups = hist.iter().filter(|h| matches!(h.kind, Kind::Lookup { .. })).count();
        if defaults.len() > lookups {
            out.push(violation(P, "more-default-instances-than-lookups", "", format!("service {svc:?}: {} default instances were created by {} lookups", defaults.len(), lookups)));
        }
    }
    out
}

pub fn nontrivial(v: &View) -> bool {
    let regs: Vec<&OpRec> = v
        .ops
        .iter()
        .filter(|o| !o.skipped() && matches!(o.inner, Op::FromRegistry { .. } | Op::Setup { .. } | Op::Register { .. } | Op::Replace { .. } | Op::Unregister { .. } | Op::TryFromRegistry { .. } | Op::AlreadyRunning { .. }))
        .collect();
    for (i, a) in regs.iter().enumerate() {
        for b in regs.iter().skip(i + 1) {
            if a.client != b.client && a.begin < b.end.unwrap_or(u64::MAX) && b.begin < a.end.unwrap_or(u64::MAX) && (a.suspended() || b.suspended()) {
                return true;
            }
        }
    }
    let first_death = v.actors.values().filter(|a| a.aidx.is_some_and(|x| v.sc.spec_of(x).tag != Tag::Plain)).filter_map(|a| a.dead).min();
    if let Some(d) = first_death {
        return regs.iter().any(|o| o.begin > d);
    }
    false
}
