//! C14 — stopped() / running() tell the truth without anyone awaiting the actor.
use super::PropDef;
use super::c02::CAUSES;
use crate::analysis::*;
use crate::log::*;
use crate::model::*;
use crate::sgen::*;

const P: &str = "C14";

pub fn def() -> PropDef {
    PropDef {
        id: P,
        level: "exploration",
        generate,
        check,
        nontrivial,
        rule: "every termination cause (13 kinds) x {nobody ever awaits, an awaiter exists before, an awaiter is created afterwards} x liveness queries (Addr::stopped, Addr::running, WeakAddr::stopped) on the original handle, on clones made before and after, and on weak addresses, at random positions; plus a registry sub-family (from_registry / try_from_registry / already_running / register after a termination nobody awaited); answers are compared with the simulator's ground truth 'the actor's task ended at event k'; non-trivial = a query was issued after the end of the actor with no await having completed before it; distinct = distinct order of client-op and callback events",
        needed_probes: &["c14_query_after_unawaited_death", "c14_query_while_alive", "c14_registry_after_unawaited_death", "c14_query_after_awaited_death"],
        quick_runs: 200_000,
        thorough_runs: 2_000_000,
        block: 1,
        flavours: &["tokio"],
        outcome: None,
        extra_profiles: &[],
        adapt: None,
    }
}

fn query(g: &mut G, k: HKind, s: Slot) -> Op {
    match k {
        HKind::WeakAddr => Op::QueryStopped { h: s },
        _ => {
            if g.chance(1, 2) { Op::QueryStopped { h: s } } else { Op::QueryRunning { h: s } }
        }
    }
}

pub fn generate(g: &mut G, index: u64) -> Scenario {
    if index % 4 == 3 {
        return generate_registry(g);
    }
    let cause = g.pick(&CAUSES);
    let owning = g.chance(1, 2);
    let spec = ActorSpec {
        mailbox: g.mailbox(),
        entry: if owning { Entry::BuilderSpawnOwning } else { Entry::BuilderSpawn },
        stopped_yields: g.below(2) as u32,
        ..Default::default()
    };
    let kinds: &[HKind] = if cause == Cause::LastDrop { &[HKind::WeakAddr, HKind::WeakSender] } else { &[HKind::Addr, HKind::WeakAddr, HKind::Sender, HKind::Caller] };
    let nclients = g.range(1, 3) as usize;
    let mut fam = one_actor(g, spec, nclients, kinds, (1, 2));
    fill_submissions(g, &mut fam, 4, 0);
    // a restart in progress is not a termination: the queries keep saying "running"
    if g.chance(1, 6) {
        add_slow_restart(g, &mut fam);
    }
    let await_mode = g.below(3); // 0 never, 1 before, 2 after
    apply_cause(g, &mut fam, cause);
    let closing = cause != Cause::LastDrop;
    if closing {
        fam.sc.clients[0].ops.push(Op::Stop { h: PRIMARY });
    }
    if await_mode == 1 && closing {
        // an awaiter that exists before the termination (another client, or client 0 right away)
        let c = if nclients > 1 { 1 } else { 0 };
        if let Some(s) = fam.slots[c].of_kind(&[HKind::Addr, HKind::Owning]).first().copied() {
            if c == 0 {
                fam.sc.clients[0].ops.push(Op::Await { h: s, on_clone: true });
            } else {
                let at = fam.pos(g, c);
                fam.insert(c, at, vec![Op::Await { h: s, on_clone: true }]);
            }
        }
    }
    // give the actor time to terminate without anybody awaiting it, then ask
    for c in 0..nclients {
        let mut ops = vec![];
        ops.push(if g.chance(1, 2) { Op::Sleep(g.range(50, 200)) } else { Op::Yield(g.range(1, 6) as u32) });
        if await_mode == 2 && closing && c == 0 {
            ops.push(Op::Await { h: PRIMARY, on_clone: true });
        }
        let avail = fam.slots[c].of_kind(&[HKind::Addr, HKind::Owning, HKind::WeakAddr]);
        for _ in 0..g.range(1, 4) {
            if avail.is_empty() {
                break;
            }
            let s = g.pick(&avail);
            let k = fam.slots[c].get(s).unwrap();
            if k != HKind::WeakAddr && g.chance(1, 3) {
                // a clone made after the termination
                ops.push(Op::Clone { h: s, to: TMP });
                ops.push(query(g, HKind::Addr, TMP));
                if g.chance(1, 2) {
                    ops.push(Op::Downgrade { h: s, to: TMP });
                    ops.push(query(g, HKind::WeakAddr, TMP));
                }
            } else {
                ops.push(query(g, k, s));
            }
        }
        fam.sc.clients[c].ops.extend(ops);
    }
    // queries sprinkled into the running phase as well
    for c in 0..nclients {
        let avail = fam.slots[c].of_kind(&[HKind::Addr, HKind::Owning, HKind::WeakAddr]);
        if !avail.is_empty() && g.chance(2, 3) {
            let s = g.pick(&avail);
            let k = fam.slots[c].get(s).unwrap();
            let at = fam.pos(g, c).min(fam.takes[c] + 3);
            let q = query(g, k, s);
            fam.insert(c, at, vec![q]);
        }
    }
    fam.sc.sched = g.sched(true);
    fam.sc.settle_ns = 100;
    fam.sc
}

/// registry decisions after a termination that nobody awaited
fn generate_registry(g: &mut G) -> Scenario {
    let mut sc = Scenario::empty(0);
    let svc = g.pick(&[Tag::SvcA, Tag::SvcB]);
    sc.actors.push(ActorSpec { tag: svc, entry: Entry::Spawn, ..Default::default() });
    let mut ops = vec![Op::FromRegistry { svc, to: 0 }, Op::Call { h: 0, id: g.id(), work: vec![] }];
    // terminate it, one way or another, and never await it
    match g.below(4) {
        0 => ops.push(Op::Stop { h: 0 }),
        1 => ops.push(Op::Send { h: 0, id: g.id(), work: vec![Work::CtxStop] }),
        2 => ops.push(Op::Send { h: 0, id: g.id(), work: vec![Work::Panic] }),
        _ => {
            ops.push(Op::Downgrade { h: 0, to: 3 });
            ops.push(Op::TryStop { h: 3 });
        }
    }
    ops.push(if g.chance(1, 2) { Op::Sleep(g.range(20, 100)) } else { Op::Yield(g.range(2, 6) as u32) });
    // (already_running is C08's business: it is not among the dependents C14 names)
    let mut tail = vec![Op::QueryStopped { h: 0 }, Op::TryFromRegistry { svc, to: 4 }, Op::QueryRunning { h: 0 }];
    // shuffle
    for i in (1..tail.len()).rev() {
        let j = g.below(i as u64 + 1) as usize;
        tail.swap(i, j);
    }
    // sometimes nothing at all looks at the dead instance before the registry is asked again
    tail.truncate(g.below(4) as usize);
    ops.extend(tail);
    if g.chance(1, 2) {
        ops.push(Op::FromRegistry { svc, to: 1 });
        ops.push(Op::Call { h: 1, id: g.id(), work: vec![] });
    } else {
        ops.push(Op::Spawn { spec: 0, slot: 2 });
        ops.push(Op::Register { h: 2, replaced_to: 5 });
        ops.push(Op::Call { h: 2, id: g.id(), work: vec![] });
    }
    sc.clients.push(ClientSpec { ops });
    sc.sched = g.sched(false);
    sc.settle_ns = 50;
    sc
}

pub fn check(v: &View) -> Vec<Violation> {
    let mut out = vec![];
    // first await (any client, any handle of that actor) that completed, per actor
    let awaited_at = |aidx: ActorIdx| -> Option<u64> {
        v.ops
            .iter()
            .filter(|o| o.target == Some(aidx) && matches!(o.inner, Op::Await { .. } | Op::Halt { .. } | Op::TryHalt { .. }) && o.ended() && !o.skipped())
            .filter_map(|o| o.end)
            .min()
    };
    for o in v.ops.iter().filter(|o| matches!(o.inner, Op::QueryStopped { .. } | Op::QueryRunning { .. }) && o.ended() && !o.skipped()) {
        let Some(aidx) = o.target else { continue };
        let runs = v.actors_of(aidx);
        if runs.len() != 1 {
            continue; // registry-derived handles are handled below
        }
        let a = runs[0];
        let Some(Res::Bool(b)) = o.res else { continue };
        let says_stopped = if matches!(o.inner, Op::QueryRunning { .. }) { !*b } else { *b };
        let truth = a.dead.is_some_and(|d| d < o.begin);
        let name = match (o.inner, o.hk) {
            (Op::QueryRunning { .. }, _) => "Addr::running",
            (_, Some(HKind::WeakAddr)) => "WeakAddr::stopped",
            _ => "Addr::stopped",
        };
        if truth {
            if awaited_at(aidx).is_some_and(|t| t < o.begin) {
                crate::log::probe("c14_query_after_awaited_death");
            } else {
                crate::log::probe("c14_query_after_unawaited_death");
            }
        } else {
            crate::log::probe("c14_query_while_alive");
        }
        if says_stopped != truth {
            let rule = if truth { "reports-running-after-termination" } else { "reports-stopped-while-running" };
            out.push(violation(P, rule, name, format!("actor {aidx}: {name} at seq {} answered {} but the actor's task {} (dead {:?}); first completed await on it: {:?}", o.begin, b, if truth { "had ended" } else { "was running" }, a.dead, awaited_at(aidx))));
        }
    }
    // registry dependents (sequential single-client sub-family)
    if v.sc.clients.len() == 1 && matches!(v.sc.clients[0].ops.first(), Some(Op::FromRegistry { .. })) {
        let ops: Vec<&OpRec> = v.ops.iter().filter(|o| o.client == 0).collect();
        // the instance obtained first
        let first_inst = ops.iter().find_map(|o| match (o.inner, o.res) {
            (Op::Call { h: 0, .. }, Some(Res::Reply(r))) => Some(r.inst),
            _ => None,
        });
        if let Some(i0) = first_inst {
            let run0 = v.actors.values().find(|a| v.cbs_of(a).any(|c| c.inst == i0));
            if let Some(dead) = run0.and_then(|a| a.dead) {
                for o in ops.iter().filter(|o| o.begin > dead && o.ended()) {
                    match o.inner {
                        Op::QueryStopped { h: 0 } => {
                            crate::log::probe("c14_registry_after_unawaited_death");
                        }
                        Op::TryFromRegistry { .. } => {
                            crate::log::probe("c14_registry_after_unawaited_death");
                            if matches!(o.res, Some(Res::Handle(true))) {
                                out.push(violation(P, "registry-treats-dead-service-as-running", "try_from_registry", format!("try_from_registry at seq {} returned an address although the registered instance {i0} had ended at {dead}", o.begin)));
                            }
                        }
                        Op::Register { .. } => {
                            if !matches!(o.res, Some(Res::Registered { .. })) {
                                out.push(violation(P, "registry-treats-dead-service-as-running", "register", format!("register at seq {} returned {:?} although the registered instance {i0} had ended at {dead}", o.begin, o.res)));
                            }
                        }
                        Op::Call { h: 1, .. } => {
                            // through the address from the second from_registry
                            match o.res {
                                Some(Res::Reply(r)) if r.inst != i0 => {}
                                _ => out.push(violation(P, "registry-treats-dead-service-as-running", "from_registry", format!("from_registry after the registered instance {i0} had ended at {dead} did not yield a fresh live instance: call returned {:?}", o.res))),
                            }
                        }
                        _ => {}
                    }
                }
            }
        }
    }
    out
}

pub fn nontrivial(v: &View) -> bool {
    for o in v.ops.iter().filter(|o| matches!(o.inner, Op::QueryStopped { .. } | Op::QueryRunning { .. }) && o.ended() && !o.skipped()) {
        let Some(aidx) = o.target else { continue };
        for a in v.actors_of(aidx) {
            if a.dead.is_some_and(|d| d < o.begin) {
                let awaited = v.ops.iter().any(|w| w.target == Some(aidx) && matches!(w.inner, Op::Await { .. } | Op::Halt { .. } | Op::TryHalt { .. }) && w.end.is_some_and(|e| e < o.begin));
                if !awaited {
                    return true;
                }
            }
        }
    }
    false
}
