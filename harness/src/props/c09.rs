//! C09 — broker delivers each publication exactly once, in one common order.
use super::PropDef;
use crate::analysis::*;
use crate::log::*;
use crate::model::*;
use crate::sgen::*;
use std::collections::BTreeMap;

const P: &str = "C09";

pub fn def() -> PropDef {
    PropDef {
        id: P,
        level: "exploration",
        generate,
        check,
        nontrivial,
        rule: "1-3 publisher clients and 1-4 subscriber actors over 1-2 topics; subscribe in started(), later from a handler, or from outside (Broker::subscribe), re-subscribe, unsubscribe, subscriber termination at arbitrary positions; publishing through Broker::publish, Addr<Broker>::publish, Broker::try_publish and Context::publish; in half of the runs a publish is followed by broker.ping() as a 'processed by now' barrier; x seeded schedules; oracle = must / may / must-not delivery windows from the stamps, at-most-once, one common order extending real-time order; non-trivial = two or more publications reached two or more subscribers with a subscribe, unsubscribe or termination in between; distinct = distinct order of client-op and callback events",
        needed_probes: &["c09_must_checked", "c09_must_not_checked", "c09_order_checked", "c09_dead_subscriber_in_table", "c09_unsubscribed", "c09_resubscribed", "c09_unheld_subscriber"],
        quick_runs: 200_000,
        thorough_runs: 2_000_000,
        block: 1,
        flavours: &["tokio"],
        outcome: None,
        extra_profiles: &[],
        adapt: None,
    }
}

pub fn generate(g: &mut G, _index: u64) -> Scenario {
    let mut sc = Scenario::empty(0);
    let two_topics = g.chance(1, 3);
    let topic = |g: &mut G| if two_topics && g.chance(1, 2) { 2u8 } else { 1u8 };
    let nsubs = g.range(1, 4) as usize;
    // subscriber actors; in two thirds of the programs all unbounded (the fan-out then never
    // suspends), otherwise some have a bounded mailbox: the broker then waits in mid fan-out for
    // a subscriber that is behind, and the deliveries must stay exactly-once and in one order
    let some_bounded = g.chance(1, 3);
    for _ in 0..nsubs {
        let mut spec = ActorSpec { entry: Entry::Spawn, ..Default::default() };
        if some_bounded && g.chance(1, 2) {
            spec.entry = Entry::BuilderSpawn;
            spec.mailbox = Some(g.below(3) as usize);
        }
        if g.chance(1, 2) {
            spec.on_start.push(Work::Subscribe(topic(g)));
            if g.chance(1, 5) {
                spec.on_start.push(Work::Subscribe(topic(g))); // subscribing again must not duplicate
            }
        }
        sc.actors.push(spec);
    }
    // setup: spawn the subscribers, make sure they are started (ping), distribute addresses
    let npubs = g.range(1, 3) as usize;
    for i in 0..nsubs {
        sc.setup.push(Op::Spawn { spec: i as ActorIdx, slot: i });
        sc.setup.push(Op::Ping { h: i });
        for c in 0..npubs {
            sc.setup.push(Op::Clone { h: i, to: 7 });
            sc.setup.push(Op::Give { h: 7, client: c as u32, to: i });
        }
        sc.setup.push(Op::Drop { h: i });
    }
    let barrier = g.chance(1, 2);
    for _c in 0..npubs {
        let mut ops: Vec<Op> = (0..nsubs).map(|i| Op::Take { to: i }).collect();
        let n = g.range(2, 8);
        for _ in 0..n {
            let s = g.below(nsubs as u64) as Slot;
            let t = topic(g);
            match g.below(12) {
                0..=4 => {
                    let path = g.pick(&[PublishPath::Static, PublishPath::Addr, PublishPath::Addr, PublishPath::Try]);
                    ops.push(Op::Publish { topic: t, id: g.id(), path });
                    if barrier && g.chance(2, 3) {
                        ops.push(Op::BrokerPing { topic: t });
                    }
                }
                5 => {
                    // publish from inside an actor
                    ops.push(Op::Call { h: s, id: g.id(), work: vec![Work::Publish { topic: t, id: g.id() }] });
                }
                6 => ops.push(Op::SubscribeExt { topic: t, h: s }),
                7 => ops.push(Op::Call { h: s, id: g.id(), work: vec![Work::Subscribe(t)] }),
                8 | 9 => {
                    ops.push(Op::Unsubscribe { topic: t, h: s });
                    if barrier && g.chance(1, 2) {
                        ops.push(Op::BrokerPing { topic: t });
                    }
                }
                10 => {
                    // the subscriber terminates
                    if g.chance(1, 2) {
                        ops.push(Op::Stop { h: s });
                    } else {
                        ops.push(Op::Send { h: s, id: g.id(), work: vec![Work::CtxStop] });
                    }
                }
                _ => ops.push(Op::Yield(g.range(1, 3) as u32)),
            }
            g.maybe_yield(&mut ops);
        }
        sc.clients.push(ClientSpec { ops });
    }
    // sometimes every holder of one subscriber lets go of it in mid-run (nobody stops it): the
    // broker's table must not keep it alive, and the others keep receiving
    if g.chance(1, 3) {
        let s = g.below(nsubs as u64) as Slot;
        for c in 0..npubs {
            let ops = &mut sc.clients[c].ops;
            let lo = nsubs; // after the Takes
            let at = g.range(lo as u64, ops.len() as u64) as usize;
            ops.insert(at, Op::Drop { h: s });
        }
    }
    // sometimes an unrelated service is looked up for the first time while publications are under
    // way (the registry is shared by all service types, the brokers included)
    if g.chance(1, 4) {
        sc.svc_a.on_start = vec![Work::Yield(g.range(1, 3) as u32)];
        let mut ops = vec![];
        if g.chance(1, 2) {
            ops.push(Op::Yield(g.range(1, 6) as u32));
        }
        ops.push(Op::FromRegistry { svc: Tag::SvcA, to: 0 });
        sc.clients.push(ClientSpec { ops });
    }
    sc.sched = g.sched(false);
    sc.settle_ns = 50;
    sc
}

#[derive(Clone, Debug)]
struct Pub {
    id: u64,
    topic: u8,
    inv: u64,
    ret: u64,
    by: u32,
}

pub fn check(v: &View) -> Vec<Violation> {
    let mut out = vec![];
    let settled = v.phase_seq(Phase::Settled);
    if v.out.outcome.hung {
        // nothing in these programs waits by design: a client operation that never returns
        // (publish, subscribe, unsubscribe, a call into a subscriber, a broker barrier) is a
        // deadlock somewhere between broker, registry and subscribers
        for o in v.ops.iter().filter(|o| !o.ended() && !o.skipped() && o.client != SETUP_CLIENT) {
            if matches!(o.inner, Op::Publish { .. } | Op::SubscribeExt { .. } | Op::Unsubscribe { .. } | Op::BrokerPing { .. } | Op::Call { .. } | Op::Send { .. } | Op::FromRegistry { .. }) {
                out.push(violation(P, "operation-never-resolves", crate::props::c02::op_name(o.inner), format!("client {} op {} ({:?}) begun at seq {} never returned (system quiescent)", o.client, o.idx, o.inner, o.begin)));
            }
        }
        return out;
    }
    if v.out.outcome.cap_phase != 0 {
        return out;
    }
    // publications that were accepted
    let mut pubs: Vec<Pub> = vec![];
    for o in v.ops.iter().filter(|o| matches!(o.inner, Op::Publish { .. }) && matches!(o.res, Some(Res::Ok))) {
        if let Op::Publish { topic, id, .. } = o.inner {
            pubs.push(Pub { id: *id, topic: *topic, inv: o.begin, ret: o.end.unwrap(), by: o.client });
        }
    }
    for r in &v.out.log {
        if let Ev::CtxRes { what: CtxOp::Publish(t), ok: true, inst, id, .. } = &r.ev {
            // the id of the publication is in the work item of the message being handled
            let inv = v.cbs.iter().rev().find(|c| c.inst == *inst && c.id == *id && c.enter < r.st.seq).map(|c| c.enter).unwrap_or(r.st.seq);
            let pid = v.ops.iter().find_map(|o| match o.inner {
                Op::Call { id: cid, work, .. } | Op::Send { id: cid, work, .. } if cid == id => work.iter().find_map(|w| if let Work::Publish { topic, id: p } = w { if topic == t { Some(*p) } else { None } } else { None }),
                _ => None,
            });
            if let Some(pid) = pid {
                pubs.push(Pub { id: pid, topic: *t, inv, ret: r.st.seq, by: 1000 + *inst });
            }
        }
    }
    // barriers per topic: (inv, ret) of successful broker pings
    let pings: Vec<(u8, u64, u64)> = v.ops.iter().filter_map(|o| match (o.inner, o.res) {
        (Op::BrokerPing { topic }, Some(Res::Ok)) => Some((*topic, o.begin, o.end.unwrap())),
        _ => None,
    }).collect();
    let surely_processed = |topic: u8, after: u64| -> u64 { pings.iter().filter(|p| p.0 == topic && p.1 > after).map(|p| p.2).min().unwrap_or(settled).min(settled) };

    // per subscriber and topic: subscribe / unsubscribe intervals
    #[derive(Default, Clone)]
    struct Sub {
        subs: Vec<(u64, u64)>,   // (inv, ret) of successful subscribes
        unsubs: Vec<(u64, u64)>, // (inv, ret) of successful unsubscribes
    }
    let mut table: BTreeMap<(ActorIdx, u8), Sub> = BTreeMap::new();
    for r in &v.out.log {
        if let Ev::CtxRes { what: CtxOp::Subscribe(t), ok: true, aidx, inst, id } = &r.ev {
            let inv = v.cbs.iter().rev().find(|c| c.inst == *inst && c.enter < r.st.seq && (c.id == *id || c.cb == Cb::Started)).map(|c| c.enter).unwrap_or(r.st.seq);
            table.entry((*aidx, *t)).or_default().subs.push((inv, r.st.seq));
        }
    }
    for o in v.ops.iter().filter(|o| matches!(o.res, Some(Res::Ok))) {
        match o.inner {
            Op::SubscribeExt { topic, .. } => table.entry((o.target.unwrap(), *topic)).or_default().subs.push((o.begin, o.end.unwrap())),
            Op::Unsubscribe { topic, .. } => {
                crate::log::probe("c09_unsubscribed");
                table.entry((o.target.unwrap(), *topic)).or_default().unsubs.push((o.begin, o.end.unwrap()))
            }
            _ => {}
        }
    }
    // failed / unfinished (un)subscribe attempts make everything about that pair uncertain
    let mut uncertain: Vec<(ActorIdx, u8)> = vec![];
    for o in v.ops.iter().filter(|o| !o.skipped() && !matches!(o.res, Some(Res::Ok))) {
        if let Op::SubscribeExt { topic, .. } | Op::Unsubscribe { topic, .. } = o.inner {
            if let Some(t) = o.target {
                uncertain.push((t, *topic));
            }
        }
    }
    for r in &v.out.log {
        if let Ev::CtxRes { what: CtxOp::Subscribe(t), ok: false, aidx, .. } = &r.ev {
            uncertain.push((*aidx, *t));
        }
    }

    for a in v.actors.values() {
        let Some(s) = a.aidx else { continue };
        if s >= AIDX_SVC_A {
            continue;
        }
        // termination trigger of the subscriber: first stop request, else the epilogue
        let cen = crate::census::census(v, s);
        let last_drop = cen.t0().unwrap_or(u64::MAX);
        let term = v.stop_requests(s).iter().map(|r| r.begin).min().unwrap_or(v.phase_seq(Phase::HandlesDropped)).min(last_drop);
        // the broker never keeps a subscriber alive: once nobody holds it any more (and nothing is
        // in flight) it is gone by the time the system has settled, not only when the brokers die
        if last_drop < v.phase_seq(Phase::ClientsDone) && v.stop_requests(s).is_empty() && !v.fault_injected(a) {
            crate::log::probe("c09_unheld_subscriber");
            let settled = v.phase_seq(Phase::Settled);
            if a.dead.is_none_or(|d| d > settled) && !v.busy_at(a, settled) {
                out.push(violation(P, "subscriber-kept-alive", "by-broker", format!("subscriber {s}: its last strong handle went away at seq {last_drop}, but it was still running when the system had settled (dead {:?}); only the broker's table still refers to it", a.dead)));
            }
        }
        let faulted = v.fault_injected(a);
        for t in [1u8, 2] {
            let sub = table.get(&(s, t)).cloned().unwrap_or_default();
            let deliveries: Vec<&CbRec> = v.cbs_of(a).filter(|c| c.cb == Cb::Topic(t)).collect();
            if sub.subs.len() >= 2 {
                crate::log::probe("c09_resubscribed");
            }
            // at most once
            let mut seen: BTreeMap<u64, u64> = BTreeMap::new();
            for d in &deliveries {
                if let Some(prev) = seen.insert(d.id, d.enter) {
                    out.push(violation(P, "delivered-twice", "", format!("subscriber {s}: publication {} on topic {t} delivered at seq {prev} and again at {}", d.id, d.enter)));
                }
            }
            if uncertain.contains(&(s, t)) || faulted {
                continue;
            }
            for p in pubs.iter().filter(|p| p.topic == t) {
                let sp = surely_processed(t, p.ret);
                let got = seen.contains_key(&p.id);
                // must: a subscription completed before the publish began, nothing that could end it
                // began before the publication was surely processed, and the subscriber lived on
                // ... i.e. there is a subscription S completed before the publish began such that every
                // unsubscription either completed before S began or began after p was surely processed
                let effective = sub.subs.iter().any(|(is, rs)| *rs < p.inv && sub.unsubs.iter().all(|(iu, ru)| *ru < *is || *iu > sp));
                if effective && term > sp {
                    crate::log::probe("c09_must_checked");
                    if !got {
                        out.push(violation(P, "publication-not-delivered", "", format!("subscriber {s} had subscribed to topic {t} (completed before seq {}) and was alive, but publication {} (published {}..{}) was never delivered", p.inv, p.id, p.inv, p.ret)));
                    }
                }
                // must not: never subscribed, or unsubscribed before the publish began and no
                // re-subscription begun before the publication was surely processed
                let never = sub.subs.is_empty();
                let last_unsub_before = sub.unsubs.iter().filter(|(_, r)| *r < p.inv).map(|(i, _)| *i).max();
                let resub_possible = |since: u64| sub.subs.iter().any(|(i, r)| *r > since && *i < sp);
                let must_not = never || last_unsub_before.is_some_and(|u| !resub_possible(u) && !sub.subs.iter().any(|(i, r)| *i < u && *r > u));
                if must_not {
                    crate::log::probe("c09_must_not_checked");
                    if got {
                        out.push(violation(P, "delivered-to-non-subscriber", if never { "never-subscribed" } else { "unsubscribed" }, format!("subscriber {s} {} topic {t}, yet publication {} was delivered to it at seq {}", if never { "never subscribed to".to_string() } else { format!("had unsubscribed (completed before seq {}) from", p.inv) }, p.id, seen[&p.id])));
                    }
                }
            }
        }
    }
    // one common order per topic, extending real-time order of publishes
    for t in [1u8, 2] {
        let tp: Vec<&Pub> = pubs.iter().filter(|p| p.topic == t).collect();
        let orders: Vec<(ActorIdx, Vec<u64>)> = v
            .actors
            .values()
            .filter_map(|a| a.aidx.map(|s| (s, v.cbs_of(a).filter(|c| c.cb == Cb::Topic(t)).map(|c| c.id).collect::<Vec<u64>>())))
            .filter(|(s, o)| *s < AIDX_SVC_A && !o.is_empty())
            .collect();
        for (i, (s1, o1)) in orders.iter().enumerate() {
            // real-time order
            for p in &tp {
                for q in &tp {
                    if p.ret < q.inv {
                        if let (Some(ip), Some(iq)) = (o1.iter().position(|x| *x == p.id), o1.iter().position(|x| *x == q.id)) {
                            crate::log::probe("c09_order_checked");
                            if iq < ip {
                                out.push(violation(P, "publisher-order-violated", "", format!("topic {t}: publication {} completed (seq {}) before {} began (seq {}), but subscriber {s1} saw them in the opposite order", p.id, p.ret, q.id, q.inv)));
                            }
                        }
                    }
                }
            }
            for (s2, o2) in orders.iter().skip(i + 1) {
                let common1: Vec<u64> = o1.iter().copied().filter(|x| o2.contains(x)).collect();
                let common2: Vec<u64> = o2.iter().copied().filter(|x| o1.contains(x)).collect();
                if common1.len() >= 2 {
                    crate::log::probe("c09_order_checked");
                }
                if common1 != common2 {
                    out.push(violation(P, "no-common-order", "", format!("topic {t}: subscribers {s1} and {s2} saw their common publications in different orders: {:?} vs {:?}", common1, common2)));
                }
            }
        }
    }
    // terminated subscribers neither block nor fail a publish (publishes resolve; failures only if the broker is gone)
    for o in v.ops.iter().filter(|o| matches!(o.inner, Op::Publish { .. }) && !o.skipped()) {
        let dead_sub = v.actors.values().any(|a| a.aidx.is_some_and(|x| x < AIDX_SVC_A) && a.dead.is_some_and(|d| d < o.begin));
        if dead_sub {
            crate::log::probe("c09_dead_subscriber_in_table");
        }
        if !matches!(o.res, Some(Res::Ok) | Some(Res::Handle(false))) {
            out.push(violation(P, "publish-failed", &format!("{:?}", if let Op::Publish { path, .. } = o.inner { *path } else { PublishPath::Static }), format!("publish {:?} returned {:?} (a subscriber had terminated before: {dead_sub})", o.inner, o.res)));
        }
    }
    // the broker never keeps a subscriber alive: nothing is left at quiescence
    if v.out.outcome.quiescent_at_end {
        for (id, kind) in &v.out.alive_at_end {
            if *kind == KIND_ACTOR {
                out.push(violation(P, "subscriber-kept-alive", "", format!("actor task {id} is still alive at quiescence although all handles were dropped and the brokers unregistered")));
            }
        }
    }
    out
}

pub fn nontrivial(v: &View) -> bool {
    let mut reached: BTreeMap<u64, u32> = BTreeMap::new();
    for c in v.cbs.iter().filter(|c| matches!(c.cb, Cb::Topic(_))) {
        *reached.entry(c.id).or_default() += 1;
    }
    let multi = reached.values().filter(|n| **n >= 2).count();
    let change = v.ops.iter().any(|o| matches!(o.inner, Op::Unsubscribe { .. } | Op::SubscribeExt { .. } | Op::Stop { .. }) && !o.skipped() && o.client != SETUP_CLIENT)
        || v.out.log.iter().any(|r| matches!(r.ev, Ev::CtxRes { what: CtxOp::Subscribe(_), id, .. } if id != 0));
    multi >= 2 && change
}
