//! One module per property: scenario generator (profile), oracle, non-triviality rule.
use crate::analysis::{View, Violation};
use crate::sgen::G;
use crate::model::Scenario;

pub mod c01;
pub mod c02;
pub mod c03;
pub mod c04;
pub mod c05;
pub mod c06;
pub mod c07;
pub mod c08;
pub mod c09;
pub mod c10;
pub mod c11;
pub mod c12;
pub mod c13;
pub mod c14;
pub mod c15;
pub mod c16;
pub mod c17;
pub mod c18;

pub struct PropDef {
    pub id: &'static str,
    pub level: &'static str,
    /// generate the scenario of run `index` (some profiles enumerate a dimension by index)
    pub generate: fn(&mut G, u64) -> Scenario,
    pub check: fn(&View) -> Vec<Violation>,
    pub nontrivial: fn(&View) -> bool,
    pub rule: &'static str,
    /// coverage probes that must be non-zero over a whole batch, else the check is ineffective
    pub needed_probes: &'static [&'static str],
    pub quick_runs: u64,
    pub thorough_runs: u64,
    /// runs are generated in blocks of this size from the same PRNG seed (the generator uses
    /// `index % block` to enumerate a dimension, e.g. fault positions, over one program)
    pub block: u64,
    /// runtime flavours of hsim this property is run on
    pub flavours: &'static [&'static str],
    /// canonical outcome record of a run (compared across flavours and schedules by the driver)
    pub outcome: Option<fn(&View) -> String>,
    /// thorough tier: half of the runs draw their scenarios from these other properties'
    /// profiles and are judged by this property's oracle (the oracle is written to be sound on them)
    pub extra_profiles: &'static [&'static str],
    /// last-minute adaptation of a generated scenario (e.g. drop fault kinds a runtime flavour
    /// does not support)
    pub adapt: Option<fn(&mut Scenario)>,
}

pub fn all() -> Vec<PropDef> {
    vec![c01::def(), c02::def(), c03::def(), c04::def(), c05::def(), c06::def(), c07::def(), c08::def(), c09::def(), c10::def(), c11::def(), c12::def(), c13::def(), c14::def(), c15::def(), c16::def(), c17::def(), c18::def()]
}

pub fn get(id: &str) -> Option<PropDef> {
    all().into_iter().find(|p| p.id == id)
}
