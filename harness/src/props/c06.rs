//! C06 — failure of one actor is contained and visible as errors, never as hangs.
//! Systematic fault enumeration: for every generated program a fault-free run counts the
//! target's callbacks K and task polls J, then one run per (fault kind, position).
use super::PropDef;
use crate::analysis::*;
use crate::log::*;
use crate::model::*;
use crate::sgen::*;

const P: &str = "C06";
pub const BLOCK: u64 = 48;

pub fn def() -> PropDef {
    PropDef {
        id: P,
        level: "fault_enumeration",
        generate,
        check,
        nontrivial,
        rule: "programs of 3 actors (target with timers and optionally a child or a registry entry; a bystander that calls the target from inside its own handler; clients calling, sending, pinging, awaiting, joining) generated per block of 48 run indices; a fault-free run of the program counts the target's callbacks K and task polls J; the block then enumerates single faults by position: started returns Err (on the first start and, where the program restarts the target, on the restart), panic at entry of the k-th callback (k in 0..K, incl. started and stopped), task cancellation instead of the j-th poll (j in 1..J), timeout with fail_on_timeout, cancellation at a global step; remaining indices of the block repeat the list under other schedule seeds; the thorough tier adds a second fault; non-trivial = the fault fired while a client operation on the target was pending; distinct = distinct order of client-op and callback events",
        needed_probes: &["c06_fault_fired", "call_pending_at_death", "c06_bystander_checked", "c06_child_released", "c06_registry_after_failure", "c06_timer_owner_died", "c06_cancel_fired", "c06_panic_fired", "c06_start_err_fired", "c06_timeout_fail_fired"],
        quick_runs: 192_000,
        thorough_runs: 2_400_000,
        block: BLOCK,
        flavours: &["tokio"],
        outcome: None,
        extra_profiles: &[],
        adapt: None,
    }
}

fn base_program(g: &mut G) -> (Scenario, bool) {
    let mut sc = Scenario::empty(0);
    let service = g.chance(1, 4);
    let with_child = !service && g.chance(1, 2);
    let owning = !service && g.chance(1, 2);
    // actor 0: target
    let mut target = ActorSpec {
        tag: if service { Tag::SvcA } else { Tag::Plain },
        mailbox: g.mailbox(),
        entry: if owning { Entry::BuilderSpawnOwning } else { Entry::BuilderSpawn },
        stopped_yields: g.below(2) as u32,
        cfg_order: g.below(6) as u8,
        ..Default::default()
    };
    for t in 0..g.range(1, 2) {
        target.on_start.push(Work::Timer(TimerSpec {
            id: t as u32,
            kind: g.pick(&[TimerKind::Interval, TimerKind::IntervalWith, TimerKind::DelayedSend]),
            period: g.range(3, 25),
            handler_sleep: 0,
        }));
    }
    if with_child {
        target.on_start.push(Work::Child { spec: 1, under: g.pick(&[ChildKey::Unit, ChildKey::Msg]) });
    }
    if g.chance(1, 3) {
        target.on_start.push(Work::Yield(1));
    }
    sc.actors.push(target);
    // actor 1: child of the target
    sc.actors.push(ActorSpec { entry: Entry::Spawn, ..Default::default() });
    // actor 2: bystander
    sc.actors.push(ActorSpec { entry: Entry::BuilderSpawn, mailbox: g.mailbox(), ..Default::default() });

    // client 0: owner of the target
    let mut c0 = vec![Op::Spawn { spec: 0, slot: 8 }];
    if service {
        c0.push(Op::Register { h: 8, replaced_to: 7 });
    }
    // hand derived handles to client 1
    let kinds = [HKind::Addr, HKind::Sender, HKind::Caller, HKind::WeakSender, HKind::WeakCaller];
    let k1 = g.pick(&kinds);
    c0.push(derive(k1, 8, 9));
    c0.push(Op::Give { h: 9, client: 1, to: 0 });
    for _ in 0..g.range(1, 5) {
        c0.push(crate::props::c01::submission(g, if owning { HKind::Owning } else { HKind::Addr }, 8));
        g.maybe_yield(&mut c0);
    }
    if with_child && g.chance(1, 2) {
        c0.push(Op::Send { h: 8, id: g.id(), work: vec![Work::Broadcast { key: ChildKey::Msg, id: g.id() }] });
    }
    // a third of the programs restart the target in mid-life (a fault can then hit the restart)
    let restarts = g.chance(1, 3);
    if restarts {
        if g.chance(1, 2) {
            c0.push(Op::Restart { h: 8 });
        } else {
            c0.push(Op::Send { h: 8, id: g.id(), work: vec![Work::CtxRestart] });
        }
        c0.push(Op::Call { h: 8, id: g.id(), work: vec![] });
    }
    c0.push(Op::Sleep(g.range(5, 40)));
    c0.push(Op::Call { h: 8, id: g.id(), work: vec![] });
    // closing sequence: the actor ends for sure, so that awaits and joins must resolve
    c0.push(Op::Stop { h: 8 });
    match g.below(3) {
        0 => c0.push(Op::Await { h: 8, on_clone: true }),
        1 => c0.push(Op::Join { h: 8 }),
        _ => {
            c0.push(Op::Await { h: 8, on_clone: true });
            c0.push(Op::Join { h: 8 });
        }
    }
    c0.push(Op::Call { h: 8, id: g.id(), work: vec![] });
    c0.push(Op::Ping { h: 8 });
    sc.clients.push(ClientSpec { ops: c0 });

    // client 1: a second user of the target
    let mut c1 = vec![Op::Take { to: 0 }];
    for _ in 0..g.range(1, 5) {
        c1.push(crate::props::c01::submission(g, k1, 0));
        g.maybe_yield(&mut c1);
    }
    if k1 == HKind::Addr && g.chance(1, 2) {
        c1.push(Op::Await { h: 0, on_clone: true });
    }
    if service {
        c1.push(Op::Sleep(g.range(60, 120)));
        c1.push(Op::AlreadyRunning { svc: Tag::SvcA });
        c1.push(Op::TryFromRegistry { svc: Tag::SvcA, to: 3 });
        if g.chance(1, 2) {
            c1.push(Op::FromRegistry { svc: Tag::SvcA, to: 4 });
            c1.push(Op::Call { h: 4, id: g.id(), work: vec![] });
        }
    }
    sc.clients.push(ClientSpec { ops: c1 });

    // client 2: drives the bystander, which calls the target from inside its handlers
    let mut c2 = vec![Op::Spawn { spec: 2, slot: 0 }];
    for _ in 0..g.range(2, 5) {
        if !service && g.chance(2, 3) {
            c2.push(Op::Call { h: 0, id: g.id(), work: vec![Work::CallPeer { target: 0, id: g.id() }] });
        } else {
            c2.push(Op::Call { h: 0, id: g.id(), work: g.light_work() });
        }
        g.maybe_yield(&mut c2);
    }
    c2.push(Op::Sleep(g.range(5, 50)));
    c2.push(Op::Call { h: 0, id: g.id(), work: if service { vec![] } else { vec![Work::CallPeer { target: 0, id: g.id() }] } });
    c2.push(Op::Stop { h: 0 });
    c2.push(Op::Await { h: 0, on_clone: true });
    sc.clients.push(ClientSpec { ops: c2 });
    sc.settle_ns = 100;
    (sc, service)
}

pub fn generate(g: &mut G, index: u64) -> Scenario {
    let (mut sc, _service) = base_program(g);
    let f = index % BLOCK;
    // fault-free counting run under a fixed schedule
    sc.sched = SchedSpec { seed: g.rng.next(), policy: PolicySpec::Uniform, racing_per_mille: 0, spurious_per_mille: 0, decisions: None };
    let (k, j) = {
        let out = crate::interp::run_scenario(&sc);
        let v = View::new(&sc, &out);
        let k = v.cbs.iter().filter(|c| c.aidx == 0).count() as u32;
        let j = v.actor_of(0).map(|a| out.task_polls.iter().find(|t| t.0 == a.task).map(|t| t.1).unwrap_or(0)).unwrap_or(0);
        (k, j)
    };
    let _ = crate::log::take_probes();
    let mut faults: Vec<FaultKind> = vec![FaultKind::StartErr { nth: 0 }];
    if sc.clients[0].ops.iter().any(|o| matches!(o, Op::Restart { .. }) || matches!(o, Op::Send { work, .. } if work.contains(&Work::CtxRestart))) {
        faults.push(FaultKind::StartErr { nth: 1 });
    }
    for i in 0..k.min(14) {
        faults.push(FaultKind::PanicAtCb { k: i });
    }
    for i in 1..=j.min(14) {
        faults.push(FaultKind::CancelBeforePoll { j: i });
    }
    faults.push(FaultKind::CancelAtStep { s: 0 }); // placeholder for "timeout failure"
    for s in [6u64, 15, 30, 60] {
        faults.push(FaultKind::CancelAtStep { s });
    }
    let n = faults.len() as u64;
    let pick = |x: u64| faults[(x % n) as usize].clone();
    let mut chosen = vec![pick(f)];
    if g.thorough && f >= n {
        chosen.push(pick(f * 7 + 3));
    }
    for fk in chosen {
        if fk == (FaultKind::CancelAtStep { s: 0 }) {
            // timeout failure: a handler slower than the configured limit
            sc.actors[0].timeout = Some(20);
            sc.actors[0].fail_on_timeout = true;
            let at = 2 + (f as usize % 3).min(sc.clients[0].ops.len() - 2);
            sc.clients[0].ops.insert(at, Op::Send { h: 8, id: 9_000 + f, work: vec![Work::Sleep(70)] });
        } else {
            sc.faults.push(Fault { actor: 0, kind: fk });
        }
    }
    // schedule: the first pass over the fault list uses the counting schedule, later passes vary
    let mut h = G::new(simrt::mix(sc.sched.seed, f / n + 1), g.thorough);
    if f >= n {
        sc.sched = h.sched(true);
    }
    sc
}

pub fn check(v: &View) -> Vec<Violation> {
    let mut out = vec![];
    let Some(a) = v.actor_of(0) else { return out };
    let spec = v.sc.spec_of(0);
    let fired = v.fault_injected(a);
    if fired {
        crate::log::probe("c06_fault_fired");
        if a.cancel_requested.is_some() {
            crate::log::probe("c06_cancel_fired");
        }
        if a.how == Some(HOW_PANICKED) {
            crate::log::probe("c06_panic_fired");
        }
        if v.cbs_of(a).any(|c| c.cb == Cb::Started && c.exit.is_some() && !c.ok) {
            crate::log::probe("c06_start_err_fired");
        }
        if spec.fail_on_timeout && v.handler_cbs_of(a).any(|c| c.exit.is_none()) && a.how == Some(HOW_COMPLETED) {
            crate::log::probe("c06_timeout_fail_fired");
        }
    }
    let relabel = |x: Violation, out: &mut Vec<Violation>| {
        out.push(violation(P, &x.rule, x.signature.splitn(3, ':').nth(2).unwrap_or(""), x.detail));
    };
    // every operation resolves; operations after the death fail; replies only from finished handlers
    for x in super::c02::check(v) {
        relabel(x, &mut out);
    }
    let failed = a.dead.is_some() && !v.graceful(a);
    if failed {
        let dead = a.dead.unwrap();
        // awaiting yields an error, join yields None
        for o in v.ops.iter().filter(|o| o.target == Some(0) && o.ended() && !o.skipped()) {
            match o.inner {
                Op::Await { .. } if matches!(o.res, Some(Res::Ok)) => {
                    out.push(violation(P, "await-ok-after-failure", "", format!("target failed (how {:?}) but awaiting its address returned Ok at seq {}", a.how, o.end.unwrap())))
                }
                Op::Join { .. } | Op::Consume { .. } | Op::ConsumeSync { .. } if matches!(o.res, Some(Res::Joined(Some(_)))) => {
                    out.push(violation(P, "join-some-after-failure", "", format!("target failed (how {:?}) but join returned the actor value", a.how)))
                }
                _ => {}
            }
        }
        // timers stop: nothing submitted after the death, no timer task left
        if v.timers.iter().any(|t| t.parent_task == a.task) {
            crate::log::probe("c06_timer_owner_died");
        }
        for r in &v.out.log {
            if let Ev::TimerSubmit { aidx: 0, timer, n, .. } = &r.ev {
                if r.st.seq > dead {
                    out.push(violation(P, "timer-fired-after-failure", "", format!("timer {timer} of the failed target fired (#{n}) at seq {} after its death at {dead}", r.st.seq)));
                }
            }
        }
        for tt in v.timers.iter().filter(|t| t.parent_task == a.task) {
            if tt.dead.is_none() && v.out.outcome.quiescent_at_end {
                out.push(violation(P, "timer-task-leaked-after-failure", "", format!("timer task {} of the failed target is still alive at quiescence", tt.task)));
            }
        }
        // children are released and stop gracefully
        for c in v.actors_of(1) {
            if c.spawned_by == a.task {
                crate::log::probe("c06_child_released");
                if v.out.outcome.quiescent_at_end && !(c.dead.is_some() && v.graceful(c)) {
                    out.push(violation(P, "child-not-released", "", format!("child of the failed target did not stop gracefully (dead {:?}, how {:?})", c.dead, c.how)));
                }
            }
        }
        // the registry treats it as not running
        if spec.tag != Tag::Plain {
            let registered = v.ops.iter().any(|o| matches!(o.inner, Op::Register { .. }) && matches!(o.res, Some(Res::Registered { .. })));
            for o in v.ops.iter().filter(|o| o.begin > dead && o.ended() && registered) {
                match o.inner {
                    Op::AlreadyRunning { .. } => {
                        crate::log::probe("c06_registry_after_failure");
                        if !matches!(o.res, Some(Res::OptBool(Some(false)))) {
                            out.push(violation(P, "registry-sees-failed-service-running", "already_running", format!("already_running after the failure returned {:?}", o.res)));
                        }
                    }
                    Op::TryFromRegistry { .. } => {
                        if matches!(o.res, Some(Res::Handle(true))) {
                            // it may be the fresh instance a concurrent from_registry spawned
                            let respawned = v.ops.iter().any(|x| matches!(x.inner, Op::FromRegistry { .. }) && x.begin < o.begin);
                            if !respawned {
                                out.push(violation(P, "registry-sees-failed-service-running", "try_from_registry", "try_from_registry returned the failed instance".to_string()));
                            }
                        }
                    }
                    Op::Call { h: 4, .. } => {
                        if !matches!(o.res, Some(Res::Reply(r)) if r.aidx == AIDX_SVC_A) {
                            out.push(violation(P, "registry-sees-failed-service-running", "from_registry", format!("from_registry after the failure did not yield a fresh live default instance: call returned {:?}", o.res)));
                        }
                    }
                    _ => {}
                }
            }
        }
    }
    // bystanders observe nothing but errors: protocol intact, own calls fine, peer calls resolve
    if let Some(b) = v.actor_of(2) {
        crate::log::probe("c06_bystander_checked");
        for x in super::c03::check(v) {
            if x.detail.starts_with("actor 2 ") || x.detail.starts_with("actor 1 ") {
                relabel(x, &mut out);
            }
        }
        if b.how.is_some_and(|h| h != HOW_COMPLETED) {
            out.push(violation(P, "bystander-died", "", format!("the bystander's task ended abnormally (how {:?})", b.how)));
        }
        for o in v.ops.iter().filter(|o| o.target == Some(2) && matches!(o.inner, Op::Call { .. }) && o.ended()) {
            let stopped = v.stop_requests(2).iter().map(|r| r.begin).min().unwrap_or(u64::MAX);
            if o.begin < stopped && !matches!(o.res, Some(Res::Reply(_))) {
                out.push(violation(P, "bystander-call-failed", "", format!("call {:?} to the bystander returned {:?}", o.msg_id(), o.res)));
            }
        }
        // every peer call made from inside a bystander handler got an answer (Ok or Err) and the handler finished
        let mut begun = 0;
        let mut ended = 0;
        for c in v.cbs_of(b).filter(|c| c.cb == Cb::Ask) {
            let Some(o) = v.ops.iter().find(|o| o.msg_id() == Some(c.id)) else { continue };
            if let Op::Call { work, .. } = o.inner {
                if work.iter().any(|w| matches!(w, Work::CallPeer { .. })) {
                    begun += 1;
                    if c.exit.is_some() {
                        ended += 1;
                    }
                }
            }
        }
        if begun != ended && (v.out.outcome.hung || v.out.outcome.quiescent_at_end) {
            out.push(violation(P, "bystander-stuck-in-peer-call", "", format!("{begun} bystander handlers called the target, only {ended} returned")));
        }
        // an answer after the target's death must be an error
        if let Some(dead) = a.dead {
            for r in &v.out.log {
                if let Ev::PeerRes { target: 0, res, id, .. } = &r.ev {
                    let began_after = v.cbs_of(b).any(|c| c.enter > dead && c.exit.is_some_and(|x| x > r.st.seq) && c.enter < r.st.seq);
                    if began_after && matches!(res, Res::Reply(_)) {
                        out.push(violation(P, "peer-call-ok-after-death", "", format!("peer call {id} begun after the target's death returned Ok")));
                    }
                }
            }
        }
    }
    out
}

pub fn nontrivial(v: &View) -> bool {
    let Some(a) = v.actor_of(0) else { return false };
    if !v.fault_injected(a) {
        return false;
    }
    let Some(d) = a.dead else { return false };
    v.ops.iter().any(|o| o.target == Some(0) && !o.skipped() && o.begin < d && o.end.is_none_or(|e| e > d) && matches!(o.inner, Op::Call { .. } | Op::Ping { .. } | Op::Send { .. } | Op::Await { .. } | Op::Join { .. }))
        || v.out.log.iter().any(|r| matches!(&r.ev, Ev::PeerRes { target: 0, res: Res::Err(_), .. }))
}
