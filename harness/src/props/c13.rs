//! C13 — stream-attached actors handle every item in order and end with the stream.
use super::PropDef;
use crate::analysis::*;
use crate::log::*;
use crate::model::*;
use crate::sgen::*;

const P: &str = "C13";

pub fn def() -> PropDef {
    PropDef {
        id: P,
        level: "exploration",
        generate,
        check,
        nontrivial,
        rule: "scripted streams (empty, finite, never-ending, never-ready, items released in bursts by client 'feed' operations or at virtual times) attached through spawn_on_stream, spawn_owning_on_stream and the builder terminals on_stream / bounded_on_stream / with_stream (spawn and spawn_owning); 1-3 clients sending messages through all handle kinds and stopping / dropping the last handle at arbitrary positions; a handler timeout configured in a third of the builder runs; the select! tie-break of the stream loop is drawn from the simulator's PRNG; x seeded schedules; non-trivial = items and messages were both handled and the termination (stop / last drop) arrived with the stream not exhausted, or the tie-break was drawn with both sources ready; distinct = distinct order of client-op, callback and stream events",
        needed_probes: &["c13_items_checked", "c13_stop_with_stream_pending", "c13_stream_end", "c13_last_drop", "select_tie_break_drawn", "c13_gate_burst", "c13_timeout_configured"],
        quick_runs: 200_000,
        thorough_runs: 2_000_000,
        block: 1,
        flavours: &["tokio"],
        outcome: None,
        extra_profiles: &[],
        adapt: None,
    }
}

pub fn generate(g: &mut G, _index: u64) -> Scenario {
    let entry = g.pick(&[
        Entry::SpawnOnStream,
        Entry::SpawnOwningOnStream,
        Entry::BuilderStreamSpawnOwning,
        Entry::BuilderStreamSpawnOwning,
        Entry::BuilderWithStreamSpawn,
        // BuilderStreamSpawn is exercised by C18 (its result depends on the runtime)
        Entry::BuilderStreamSpawn,
    ]);
    let mut script = vec![];
    let mut gates = 0u32;
    let shape = g.below(6);
    let n = match shape {
        0 => 0,
        _ => g.range(1, 8),
    };
    for _ in 0..n {
        match g.below(6) {
            0 => {
                script.push(StreamItem::Gate(gates));
                gates += 1;
            }
            1 => script.push(StreamItem::Delay(g.range(1, 30))),
            _ => {}
        }
        script.push(StreamItem::Item(g.id()));
    }
    let mut ends = match shape {
        0 => g.chance(1, 2),
        1 => false,
        _ => g.chance(2, 3),
    };
    // a saturated stream: always ready, for ever; the mailbox must still be served and a stop or
    // the last drop must still terminate the actor
    let saturated = g.chance(1, 8);
    if saturated {
        script.push(StreamItem::Forever(1_000_000));
        ends = false;
    }
    let mut spec = ActorSpec {
        entry,
        restart: Restart::NonRestartable,
        mailbox: g.mailbox(),
        stream: Some(StreamSpec { script, ends }),
        stopped_yields: g.below(2) as u32,
        ..Default::default()
    };
    if entry.builder() && g.chance(1, 3) {
        spec.timeout = Some(g.range(1, 5));
    }
    if g.chance(1, 6) {
        // a timer of its own must not keep a stream-attached actor from ending either
        spec.on_start.push(Work::Timer(TimerSpec { id: 0, kind: g.pick(&[TimerKind::Interval, TimerKind::IntervalWith, TimerKind::DelayedSend]), period: g.range(4, 25), handler_sleep: 0 }));
    }
    let cause = if saturated {
        g.pick(&[Cause::Stop, Cause::Halt, Cause::CtxStop, Cause::LastDrop, Cause::TryStop])
    } else {
        g.pick(&[Cause::None, Cause::None, Cause::Stop, Cause::Halt, Cause::CtxStop, Cause::LastDrop, Cause::TryStop])
    };
    let kinds: &[HKind] = if cause == Cause::LastDrop { &[HKind::WeakSender, HKind::WeakCaller] } else { &[HKind::Addr, HKind::Sender, HKind::Caller, HKind::WeakSender] };
    let nclients = g.range(1, 3) as usize;
    let mut fam = one_actor(g, spec, nclients, kinds, (1, 2));
    // messages with work that takes (virtual) time, so that a timeout would bite if it applied
    for c in 0..nclients {
        let n = g.range(0, 6);
        for _ in 0..n {
            let s = g.pick(&fam.slots[c].any());
            let k = fam.slots[c].get(s).unwrap();
            let mut op = crate::props::c01::submission(g, k, s);
            if let Op::Send { work, .. } | Op::Call { work, .. } = &mut op {
                if g.chance(1, 3) {
                    *work = vec![Work::Sleep(g.range(2, 12))];
                }
            }
            fam.sc.clients[c].ops.push(op);
            g.maybe_yield(&mut fam.sc.clients[c].ops);
        }
    }
    // feed the gates from a random client, in order
    for gate in 0..gates {
        let c = g.below(nclients as u64) as usize;
        let at = fam.pos(g, c);
        fam.insert(c, at, vec![Op::Feed { gate }]);
    }
    apply_cause(g, &mut fam, cause);
    if !matches!(cause, Cause::LastDrop | Cause::None) && g.chance(1, 2) {
        fam.sc.clients[0].ops.push(Op::Await { h: PRIMARY, on_clone: true });
    }
    if cause == Cause::None && ends && g.chance(1, 2) {
        // the stream ends by itself (once all gates are open): awaiting must then resolve Ok
        for gate in 0..gates {
            fam.sc.clients[0].ops.push(Op::Feed { gate });
        }
        fam.sc.clients[0].ops.push(Op::Await { h: PRIMARY, on_clone: true });
    }
    fam.sc.sched = g.sched(true);
    fam.sc.settle_ns = 80;
    fam.sc
}

pub fn check(v: &View) -> Vec<Violation> {
    let mut out = vec![];
    let capped = v.out.outcome.cap_phase != 0;
    for a in v.actors.values() {
        let Some(aidx) = a.aidx else { continue };
        if aidx >= AIDX_SVC_A || v.actors_of(aidx).len() != 1 {
            continue;
        }
        let spec = v.sc.spec_of(aidx);
        if !spec.entry.on_stream() {
            continue;
        }
        let sig = format!("{:?}", spec.entry);
        if spec.timeout.is_some() {
            crate::log::probe("c13_timeout_configured");
        }
        if v.out.log.iter().any(|r| matches!(r.ev, Ev::GateOpened { .. })) {
            crate::log::probe("c13_gate_burst");
        }
        let yielded: Vec<(u64, u64)> = v.out.log.iter().filter_map(|r| if let Ev::StreamYield { aidx: x, id } = &r.ev { if *x == aidx { Some((r.st.seq, *id)) } else { None } } else { None }).collect();
        let stream_end = v.out.log.iter().find_map(|r| if let Ev::StreamEnd { aidx: x } = &r.ev { if *x == aidx { Some(r.st.seq) } else { None } } else { None });
        let handled: Vec<&CbRec> = v.cbs_of(a).filter(|c| c.cb == Cb::Item).collect();
        let faulted = v.fault_injected(a);
        crate::log::probe("c13_items_checked");
        if v.out.log.iter().any(|r| matches!(&r.ev, Ev::StreamPolledAfterEnd { aidx: x } if *x == aidx)) {
            out.push(violation(P, "stream-polled-after-end", &sig, format!("actor {aidx}: the attached stream was polled again after it had ended (it panicked, as a stream may)")));
        }
        // exactly once, in stream order: the handled items are the yielded items, in order
        if capped && a.dead.is_none() {
            // nothing more to judge on an unfinished history beyond "did not terminate" below
        }
        let hy: Vec<u64> = handled.iter().map(|c| c.id).collect();
        let yy: Vec<u64> = yielded.iter().map(|y| y.1).collect();
        if hy != yy {
            // an item taken from the stream is handled in the same poll; only a fault could separate them
            if !(faulted && hy.len() + 1 == yy.len() && yy.starts_with(&hy)) {
                out.push(violation(P, "items-not-handled-exactly-once-in-order", &sig, format!("actor {aidx}: the stream yielded {:?}, the actor handled {:?}", yy, hy)));
            }
        }
        // nothing being handled is ever abandoned (even with a timeout configured)
        for c in v.handler_cbs_of(a) {
            if c.exit.is_none() && !faulted && !(capped && a.dead.is_none()) {
                out.push(violation(P, "handler-abandoned", &sig, format!("actor {aidx}: {:?}/{} entered at seq {} never finished (timeout configured: {:?})", c.cb, c.id, c.enter, spec.timeout)));
            }
        }
        // termination protocol and results
        let stop = v.stop_requests(aidx).iter().filter_map(|r| r.accepted_ret).min();
        let cen = crate::census::census(v, aidx);
        let t0 = cen.t0().filter(|t| *t < v.phase_seq(Phase::ClientsDone));
        if let Some(e) = stream_end {
            crate::log::probe("c13_stream_end");
            let _ = e;
        }
        let script_len = spec.stream.as_ref().map(|s| s.script.iter().filter(|i| matches!(i, StreamItem::Item(_))).count()).unwrap_or(0);
        if (stop.is_some() || t0.is_some()) && yy.len() < script_len {
            crate::log::probe("c13_stop_with_stream_pending");
        }
        if t0.is_some() && stop.is_none() {
            crate::log::probe("c13_last_drop");
        }
        let must_end = !faulted && (stream_end.is_some() || stop.is_some() || t0.is_some() || v.sc.drop_handles);
        // (a run that hits the step cap with the actor still alive although it was stopped / let go
        // thousands of steps ago is the saturated-stream case: the actor never looked at its mailbox)
        if must_end && (v.out.outcome.quiescent_at_end || capped) {
            if a.dead.is_none() {
                out.push(violation(P, "did-not-terminate", &sig, format!("actor {aidx}: stream ended {:?} / stop accepted {:?} / last strong handle gone {:?} but the actor never terminated", stream_end, stop, t0)));
            } else if !v.graceful(a) {
                out.push(violation(P, "termination-not-graceful", &sig, format!("actor {aidx}: terminated (how {:?}) without a completed stopped()", a.how)));
            }
        }
        if a.dead.is_some() && !faulted {
            let fin = v.cbs_of(a).filter(|c| c.cb == Cb::Finished).count();
            let stp = v.cbs_of(a).filter(|c| c.cb == Cb::Stopped).count();
            let last_two: Vec<Cb> = v.cbs_of(a).map(|c| c.cb).collect::<Vec<_>>().into_iter().rev().take(2).collect();
            if fin != 1 || stp != 1 || last_two != vec![Cb::Stopped, Cb::Finished] {
                out.push(violation(P, "finished-stopped-protocol", &sig, format!("actor {aidx}: finished called {fin}x, stopped {stp}x, trace ends with {:?}", last_two)));
            }
            for o in v.ops.iter().filter(|o| o.target == Some(aidx) && matches!(o.inner, Op::Await { .. }) && o.ended()) {
                if !matches!(o.res, Some(Res::Ok)) {
                    out.push(violation(P, "await-not-ok", &sig, format!("actor {aidx}: awaiting the address returned {:?} after a graceful end", o.res)));
                }
            }
        }
        // a dead-after-spawn actor (handle dropped by the spawn entry point) is C18's finding, but it
        // also breaks this property on runtimes that cancel on drop
        if a.cancel_requested.is_some_and(|(_, injected)| !injected) {
            out.push(violation(P, "cancelled-by-spawn-entry-point", &sig, format!("actor {aidx}: its task was cancelled because the spawn entry point dropped the task handle")));
        }
    }
    // mailbox messages keep their own order
    for x in super::c01::check(v) {
        if matches!(x.rule.as_str(), "reordered" | "handled-twice" | "overlap" | "handled-without-predecessor") {
            out.push(violation(P, &format!("mailbox-{}", x.rule), "", x.detail));
        }
    }
    // every operation resolves (stop / drop terminate it even if the stream never ends)
    if v.out.outcome.hung || v.out.outcome.cap_phase == 1 {
        for o in v.ops.iter().filter(|o| !o.ended()) {
            out.push(violation(P, "operation-never-resolves", crate::props::c02::op_name(o.inner), format!("client {} op {:?} never returned", o.client, o.inner)));
        }
    }
    out
}

pub fn nontrivial(v: &View) -> bool {
    for a in v.actors.values() {
        let Some(aidx) = a.aidx else { continue };
        if aidx >= AIDX_SVC_A {
            continue;
        }
        let items = v.cbs_of(a).filter(|c| c.cb == Cb::Item).count();
        let msgs = v.cbs_of(a).filter(|c| matches!(c.cb, Cb::Msg | Cb::Ask)).count();
        let spec = v.sc.spec_of(aidx);
        let script_len = spec.stream.as_ref().map(|s| s.script.iter().filter(|i| matches!(i, StreamItem::Item(_))).count()).unwrap_or(0);
        let ended_early = a.dead.is_some_and(|d| d < v.phase_seq(Phase::HandlesDropped)) && (items < script_len || !spec.stream.as_ref().is_some_and(|s| s.ends));
        if items >= 1 && msgs >= 1 && (ended_early || v.out.stats.select_draws > 0) {
            return true;
        }
    }
    false
}
