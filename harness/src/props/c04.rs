//! C04 — stop is a drain barrier and termination is announced after stopped().
use super::PropDef;
use crate::analysis::*;
use crate::log::*;
use crate::model::*;
use crate::sgen::*;

const P: &str = "C04";

pub fn def() -> PropDef {
    PropDef {
        id: P,
        level: "exploration",
        generate,
        check,
        nontrivial,
        rule: "1-4 clients submitting through all handle kinds while 1-3 stop requests (Addr::stop, halt, WeakAddr::try_stop/try_halt, Context::stop, OwningAddr::consume/consume_sync) are issued from any client at random positions; awaiters (address clones, halt, join) created before and after termination; stopped() suspends 0-2 times; a fraction of runs fail instead (started error, timeout failure, panic); x seeded schedules; non-trivial = a submission from another client was in flight or issued between the first stop request and the end of the actor; distinct = distinct order of client-op and callback events",
        needed_probes: &["c04_awaiter_checked", "c04_after_stop_checked", "c04_before_stop_checked", "c04_call_before_stop_checked", "c04_late_clone_awaited", "c04_failed_termination_awaited"],
        quick_runs: 200_000,
        thorough_runs: 2_000_000,
        block: 1,
        flavours: &["tokio"],
        outcome: None,
        extra_profiles: &["C01", "C02", "C03", "C06", "C10", "C11", "C12", "C13", "C17"],
        adapt: None,
    }
}

const STOPS: [Cause; 7] = [Cause::Stop, Cause::Halt, Cause::TryStop, Cause::TryHalt, Cause::CtxStop, Cause::Consume, Cause::Stop];

pub fn generate(g: &mut G, index: u64) -> Scenario {
    // an eighth of the programs stop stream-attached actors (incl. saturated streams): the stop
    // must get through and be a barrier there as well
    if g.chance(1, 8) {
        let mut sc = super::c13::generate(g, index);
        sc.profile = "C13".to_string(); // (oracles applied across profiles go by this tag)
        return sc;
    }
    let owning = g.chance(1, 2);
    let spec = ActorSpec {
        mailbox: g.mailbox(),
        entry: if owning { Entry::BuilderSpawnOwning } else { Entry::BuilderSpawn },
        stopped_yields: g.below(3) as u32,
        stopped_sleep: if g.chance(1, 5) { g.range(5, 40) } else { 0 },
        timeout: if g.chance(1, 8) { Some(g.range(50, 90)) } else { None },
        ..Default::default()
    };
    let kinds = [HKind::Addr, HKind::Addr, HKind::Sender, HKind::Caller, HKind::WeakSender, HKind::WeakCaller, HKind::WeakAddr];
    let nclients = g.range(1, 4) as usize;
    let mut fam = one_actor(g, spec, nclients, &kinds, (1, 3));
    fill_submissions(g, &mut fam, 7, 12);
    // sometimes a restart with slow hooks is under way when the stop requests come in
    if g.chance(1, 6) {
        add_slow_restart(g, &mut fam);
    }
    // awaiters created before the termination, in clients other than 0
    for c in 1..fam.nclients() {
        if let Some(s) = fam.slots[c].of_kind(&[HKind::Addr]).first().copied() {
            if g.chance(1, 2) {
                let at = fam.pos(g, c);
                fam.insert(c, at, vec![Op::Await { h: s, on_clone: true }]);
            }
        }
    }
    // additional stop requests from other clients
    for c in 1..fam.nclients() {
        if !g.chance(1, 3) {
            continue;
        }
        let at = fam.pos(g, c);
        if let Some(s) = fam.slots[c].of_kind(&[HKind::Addr]).first().copied() {
            let op = match g.below(3) {
                0 => Op::Stop { h: s },
                1 => Op::Send { h: s, id: g.id(), work: ctx_stop_work(g) },
                _ => Op::Call { h: s, id: g.id(), work: ctx_stop_work(g) },
            };
            fam.insert(c, at, vec![op]);
        } else if let Some(s) = fam.slots[c].of_kind(&[HKind::WeakAddr]).first().copied() {
            fam.insert(c, at, vec![Op::TryStop { h: s }]);
        }
    }
    // failure half of the sentence
    let fail = g.below(10);
    match fail {
        0 => apply_cause(g, &mut fam, Cause::StartErr),
        1 => apply_cause(g, &mut fam, Cause::TimeoutFail),
        2 => apply_cause(g, &mut fam, Cause::HandlerPanic),
        _ => {}
    }
    // client 0 always stops the actor
    let cause = g.pick(&STOPS);
    apply_cause(g, &mut fam, cause);
    // awaiters created after termination
    {
        let consumed = cause == Cause::Consume && fam.owning;
        let ops = &mut fam.sc.clients[0].ops;
        if !consumed {
            match g.below(4) {
                0 => ops.push(Op::Await { h: PRIMARY, on_clone: true }),
                1 => {
                    ops.push(Op::Await { h: PRIMARY, on_clone: true });
                    ops.push(Op::Clone { h: PRIMARY, to: TMP });
                    ops.push(Op::Await { h: TMP, on_clone: g.chance(1, 2) });
                }
                2 => ops.push(Op::Join { h: PRIMARY }),
                _ => {}
            }
            if g.chance(1, 3) {
                ops.push(Op::Call { h: PRIMARY, id: g.id(), work: vec![] });
                ops.push(Op::Send { h: PRIMARY, id: g.id(), work: vec![] });
            }
        }
    }
    fam.sc.sched = g.sched(true);
    fam.sc.settle_ns = 100;
    fam.sc
}

fn is_submission(o: &Op) -> bool {
    matches!(o, Op::Send { .. } | Op::ForceSend { .. } | Op::Call { .. })
}

pub fn check(v: &View) -> Vec<Violation> {
    let mut out = vec![];
    for a in v.actors.values() {
        let Some(aidx) = a.aidx else { continue };
        if v.actors_of(aidx).len() != 1 {
            continue;
        }
        let spec = v.sc.spec_of(aidx);
        let reqs = v.stop_requests(aidx);
        let failed = v.fault_injected(a);
        let graceful = v.graceful(a);
        let first_inv = reqs.iter().map(|r| r.begin).min();
        let first_acc = reqs.iter().filter_map(|r| r.accepted_ret).min();
        let handled = |id: u64| v.cbs_of(a).find(|c| c.id == id && matches!(c.cb, Cb::Msg | Cb::Ask));

        // A: accepted before any stop request was issued => handled
        // (a stream-attached actor may end with its stream without draining its mailbox, R9)
        if let (Some(fi), false, None) = (first_inv, failed, spec.effective_timeout()) {
            if a.dead.is_some() && !spec.entry.on_stream() {
                for o in v.ops.iter().filter(|o| o.target == Some(aidx) && matches!(o.inner, Op::Send { .. } | Op::ForceSend { .. })) {
                    if matches!(o.res, Some(Res::Ok)) && o.end.unwrap() < fi {
                        crate::log::probe("c04_before_stop_checked");
                        let id = o.msg_id().unwrap();
                        if handled(id).is_none_or(|c| c.exit.is_none()) {
                            out.push(violation(P, "accepted-before-stop-not-handled", &format!("{:?}", o.hk.unwrap()), format!("actor {aidx}: message {id} was accepted at seq {} before the first stop request (seq {fi}) but never handled", o.end.unwrap())));
                        }
                    }
                }
            }
        }
        // A': ... and "its call returns Ok": a call whose message was in the mailbox before any
        // stop request was issued (begun earlier through a strong handle on a path that does not
        // wait for space, and not given up by its client) is answered, however late its caller
        // gets to look at the answer
        if let (Some(fi), false, None) = (first_inv, failed, spec.effective_timeout()) {
            if a.dead.is_some() && graceful && !spec.entry.on_stream() {
                for o in v.ops.iter().filter(|o| o.target == Some(aidx) && matches!(o.inner, Op::Call { .. }) && o.begin < fi && o.ended() && !o.abandoned() && !o.skipped()) {
                    let Some(k) = o.hk else { continue };
                    let never_waits = spec.effective_mailbox().is_none() || matches!(k, HKind::Addr | HKind::Owning);
                    if !k.strong() || !never_waits {
                        continue;
                    }
                    crate::log::probe("c04_call_before_stop_checked");
                    if !matches!(o.res, Some(Res::Reply(_))) {
                        out.push(violation(P, "call-before-stop-not-ok", &format!("{k:?}"), format!("actor {aidx}: call {:?} was submitted at seq {} before the first stop request (seq {fi}) and the actor terminated gracefully, but the call returned {:?}", o.msg_id(), o.begin, o.res)));
                    }
                }
            }
        }
        // B: submitted after an accepted stop had returned => never handled, calls fail
        if let Some(acc) = first_acc {
            for o in v.ops.iter().filter(|o| o.target == Some(aidx) && is_submission(o.inner) && !o.skipped() && o.begin > acc) {
                crate::log::probe("c04_after_stop_checked");
                let id = o.msg_id().unwrap();
                if let Some(c) = handled(id) {
                    out.push(violation(P, "handled-after-stop", &format!("{:?}", o.hk.unwrap()), format!("actor {aidx}: message {id} submitted at seq {} after an accepted stop request had returned at {acc} was handled at {}", o.begin, c.enter)));
                }
                if matches!(o.inner, Op::Call { .. }) && matches!(o.res, Some(Res::Reply(_))) {
                    out.push(violation(P, "call-ok-after-stop", &format!("{:?}", o.hk.unwrap()), format!("actor {aidx}: call {id} submitted at seq {} after an accepted stop (returned {acc}) returned Ok", o.begin)));
                }
            }
            // C: the actor then terminates gracefully
            // (a run that hits the step cap with a stream-attached actor still alive thousands of
            // steps after its stop was accepted is the saturated-stream case, as in C13)
            let never = v.out.outcome.cap_phase != 0 && v.sc.spec_of(aidx).stream.is_some() && a.dead.is_none();
            if !failed && (v.out.outcome.quiescent_at_end || never) && !graceful {
                out.push(violation(P, "no-graceful-termination-after-stop", "", format!("actor {aidx}: a stop request was accepted at seq {acc}, nothing failed, yet the actor did not terminate gracefully (dead {:?}, how {:?})", a.dead, a.how)));
            }
        }
        // D: awaiters
        let fs_exit = v.final_stopped(a).and_then(|c| c.exit);
        // join futures created early (JoinStart) take the value without being attributable here
        let mut first_join_seen = v.ops.iter().any(|o| matches!(o.inner, Op::JoinStart { .. }) && !o.skipped());
        for o in v.ops.iter().filter(|o| o.target == Some(aidx) && o.ended() && !o.skipped()) {
            let kind = match o.inner {
                Op::Await { .. } => "await",
                Op::Halt { .. } => "halt",
                Op::TryHalt { .. } => "try_halt",
                Op::Join { .. } | Op::JoinFinish | Op::DropThenJoin { .. } => "join",
                Op::Consume { .. } | Op::ConsumeSync { .. } => "consume",
                _ => continue,
            };
            if o.abandoned() {
                continue; // the client dropped the operation's future itself
            }
            crate::log::probe("c04_awaiter_checked");
            let end = o.end.unwrap();
            if a.dead.is_some_and(|d| o.begin > d) && kind == "await" {
                crate::log::probe("c04_late_clone_awaited");
            }
            if !graceful && a.dead.is_some() && kind == "await" {
                crate::log::probe("c04_failed_termination_awaited");
            }
            let okres = matches!(o.res, Some(Res::Ok) | Some(Res::Joined(Some(_))));
            if okres {
                if !graceful {
                    out.push(violation(P, "ok-although-not-graceful", kind, format!("actor {aidx}: {:?} returned {:?} at seq {end} but the actor did not terminate gracefully (dead {:?}, how {:?})", o.inner, o.res, a.dead, a.how)));
                } else if fs_exit.is_none_or(|x| end < x) {
                    out.push(violation(P, "resolved-before-stopped-finished", kind, format!("actor {aidx}: {:?} returned Ok at seq {end}, before stopped() had finished ({fs_exit:?})", o.inner)));
                }
            } else {
                // Err / None
                match kind {
                    "await" => {
                        if a.dead.is_none_or(|d| end < d) {
                            out.push(violation(P, "error-before-termination", kind, format!("actor {aidx}: {:?} returned {:?} at seq {end} while the actor was still running", o.inner, o.res)));
                        } else if graceful {
                            out.push(violation(P, "error-although-graceful", kind, format!("actor {aidx}: {:?} returned {:?} although the actor terminated gracefully", o.inner, o.res)));
                        }
                    }
                    "join" => {
                        if a.dead.is_none_or(|d| end < d) {
                            out.push(violation(P, "error-before-termination", kind, format!("actor {aidx}: {:?} returned {:?} at seq {end} while the actor was still running", o.inner, o.res)));
                        } else if graceful && !first_join_seen {
                            out.push(violation(P, "error-although-graceful", kind, format!("actor {aidx}: first {:?} returned None although the actor terminated gracefully", o.inner)));
                        }
                    }
                    "halt" | "consume" => {
                        // begun while the actor's task was alive: its own stop is accepted
                        if a.dead.is_none_or(|d| o.begin < d) && graceful {
                            out.push(violation(P, "error-although-graceful", kind, format!("actor {aidx}: {:?} begun at seq {} (actor alive) returned {:?} although the actor terminated gracefully", o.inner, o.begin, o.res)));
                        }
                    }
                    _ => {}
                }
            }
            if kind == "join" || kind == "consume" {
                first_join_seen = true;
            }
        }
    }
    out
}

pub fn nontrivial(v: &View) -> bool {
    for a in v.actors.values() {
        let Some(aidx) = a.aidx else { continue };
        let reqs = v.stop_requests(aidx);
        let Some(first) = reqs.iter().min_by_key(|r| r.begin) else { continue };
        let until = a.dead.unwrap_or(u64::MAX);
        for o in v.ops.iter().filter(|o| o.target == Some(aidx) && is_submission(o.inner) && !o.skipped()) {
            if Some(o.client) != first.by_client && o.begin < until && o.end.unwrap_or(u64::MAX) > first.begin {
                return true;
            }
        }
    }
    false
}
