//! C02 — calls return their own handler's result, and every operation resolves.
use super::PropDef;
use crate::analysis::*;
use crate::log::*;
use crate::model::*;
use crate::sgen::*;
use std::collections::BTreeMap;

const P: &str = "C02";

pub fn def() -> PropDef {
    PropDef {
        id: P,
        level: "exploration",
        generate,
        check,
        nontrivial,
        rule: "(5/6) C01's client programs with concurrent calls from 1-4 clients through all handle kinds plus one termination cause (stop, halt, try_stop, Context::stop, consume, last strong handle dropped, started error, handler panic, timeout failure, task cancellation before the j-th poll or at a global step) at a random position, awaiters and joins; (1/6) C13's programs against stream-attached actors incl. saturated streams; x seeded schedules; non-trivial = two calls were pending at once or the actor died with a call/ping pending; distinct = distinct order of client-op and callback events",
        needed_probes: &["c02_reply_checked", "call_pending_at_death", "c02_op_after_death_checked", "c02_await_result_checked"],
        quick_runs: 200_000,
        thorough_runs: 2_000_000,
        block: 1,
        flavours: &["tokio"],
        outcome: None,
        extra_profiles: &["C01", "C03", "C04", "C05", "C06", "C07", "C09", "C10", "C11", "C12", "C13", "C16", "C17"],
        adapt: None,
    }
}

pub const CAUSES: [Cause; 14] = [
    Cause::None,
    Cause::Stop,
    Cause::Halt,
    Cause::TryStop,
    Cause::TryHalt,
    Cause::CtxStop,
    Cause::Consume,
    Cause::LastDrop,
    Cause::StartErr,
    Cause::HandlerPanic,
    Cause::TimeoutFail,
    Cause::CancelPoll,
    Cause::CancelStep,
    Cause::RestartErr,
];

pub fn generate(g: &mut G, index: u64) -> Scenario {
    // a sixth of the programs talk to stream-attached actors (incl. saturated streams): their
    // calls, pings, halts and awaits must resolve just the same
    if g.chance(1, 6) {
        let mut sc = super::c13::generate(g, index);
        sc.profile = "C13".to_string(); // (oracles applied across profiles go by this tag)
        return sc;
    }
    let cause = g.pick(&CAUSES);
    let owning = g.chance(1, 2);
    let spec = ActorSpec {
        mailbox: g.mailbox(),
        entry: if owning { Entry::BuilderSpawnOwning } else { Entry::BuilderSpawn },
        stopped_yields: g.below(3) as u32,
        on_start: if g.chance(1, 3) { vec![Work::Yield(g.range(1, 2) as u32)] } else { vec![] },
        ..Default::default()
    };
    let kinds: &[HKind] = if cause == Cause::LastDrop {
        &[HKind::WeakSender, HKind::WeakCaller, HKind::WeakAddr]
    } else {
        &[HKind::Addr, HKind::Sender, HKind::Caller, HKind::WeakSender, HKind::WeakCaller]
    };
    let nclients = g.range(1, 4) as usize;
    let mut fam = one_actor(g, spec, nclients, kinds, (1, 2));
    fill_submissions(g, &mut fam, 8, 10);
    let closing = cause != Cause::LastDrop && g.chance(2, 3);
    if closing {
        // awaiters in other clients (they resolve because client 0 stops the actor in the end)
        for c in 1..fam.nclients() {
            if let Some(s) = fam.slots[c].of_kind(&[HKind::Addr]).first().copied() {
                if g.chance(1, 3) {
                    let at = fam.pos(g, c);
                    fam.insert(c, at, vec![Op::Await { h: s, on_clone: true }]);
                }
            }
        }
    }
    apply_cause(g, &mut fam, cause);
    if closing {
        let ops = &mut fam.sc.clients[0].ops;
        // a join future that was polled once and is then left alone must not keep later
        // operations from resolving
        let kept_join = owning && g.chance(1, 5);
        // ... nor must two joins that are pending at the same time in different tasks
        let pair = kept_join && g.chance(1, 2);
        if pair {
            ops.push(Op::JoinStart { h: PRIMARY });
            ops.push(Op::JoinStart { h: PRIMARY });
            ops.push(Op::JoinSpawn);
            ops.push(Op::Yield(g.range(1, 3) as u32));
            ops.push(Op::JoinPoll);
        } else if kept_join {
            ops.push(Op::JoinStart { h: PRIMARY });
            ops.push(Op::JoinPoll);
        }
        ops.push(Op::Stop { h: PRIMARY });
        match g.below(3) {
            _ if pair => {
                ops.push(Op::JoinFinish);
                ops.push(Op::JoinCollect);
            }
            _ if kept_join => {
                ops.push(Op::Await { h: PRIMARY, on_clone: true });
                ops.push(Op::Join { h: PRIMARY });
                ops.push(Op::JoinFinish);
            }
            0 => ops.push(Op::Await { h: PRIMARY, on_clone: true }),
            1 => ops.push(Op::Join { h: PRIMARY }),
            _ => {}
        }
        if g.chance(1, 3) {
            // operations after the actor is known to be gone
            let id = g.id();
            ops.push(Op::Call { h: PRIMARY, id, work: vec![] });
            ops.push(Op::Ping { h: PRIMARY });
            let id = g.id();
            ops.push(Op::Send { h: PRIMARY, id, work: vec![] });
        }
    }
    fam.sc.sched = g.sched(true);
    fam.sc.settle_ns = 200;
    fam.sc
}

pub fn check(v: &View) -> Vec<Violation> {
    let mut out = vec![];
    // nonce sent per call id
    let mut nonces: BTreeMap<u64, u64> = BTreeMap::new();
    for r in &v.out.log {
        if let Ev::Nonce { id, nonce } = &r.ev {
            nonces.insert(*id, *nonce);
        }
    }
    // (1) response integrity
    let mut invocations: BTreeMap<(u32, u32), u64> = BTreeMap::new();
    for o in &v.ops {
        let Op::Call { id, .. } = o.inner else { continue };
        let Some(Res::Reply(r)) = o.res else { continue };
        crate::log::probe("c02_reply_checked");
        let sig = format!("{:?}", o.hk.unwrap_or(HKind::Addr));
        if r.id != *id || Some(&r.nonce) != nonces.get(id) {
            out.push(violation(P, "foreign-reply", &sig, format!("call {} got the reply of call {} (nonce {} vs sent {:?})", id, r.id, r.nonce, nonces.get(id))));
            continue;
        }
        let hs: Vec<&CbRec> = v.cbs.iter().filter(|c| c.cb == Cb::Ask && c.id == *id).collect();
        if hs.len() != 1 {
            out.push(violation(P, "reply-without-single-invocation", &sig, format!("call {} returned Ok but its handler ran {} times", id, hs.len())));
            continue;
        }
        let h = hs[0];
        if h.exit.is_none_or(|x| x > o.end.unwrap()) {
            out.push(violation(P, "reply-before-handler-finished", &sig, format!("call {} returned Ok at {} but its handler had not finished (exit {:?})", id, o.end.unwrap(), h.exit)));
        }
        // (addresses obtained from the registry carry the default actor index as a placeholder)
        if h.inst != r.inst || (Some(h.aidx) != o.target && o.target.is_some_and(|t| t < AIDX_SVC_A)) {
            out.push(violation(P, "reply-from-wrong-actor", &sig, format!("call {} to actor {:?} was answered by instance {} of actor {}", id, o.target, r.inst, r.aidx)));
        }
        if let Some(prev) = invocations.insert((r.inst, r.invocation), *id) {
            out.push(violation(P, "duplicated-reply", &sig, format!("calls {} and {} both carry invocation number {} of instance {}", prev, id, r.invocation, r.inst)));
        }
    }
    // (2) every operation resolves
    let stuck = v.out.outcome.hung || v.out.outcome.cap_phase == 1 || v.out.outcome.setup_failed;
    if stuck {
        for o in v.ops.iter().filter(|o| !o.ended()) {
            // waiting for the end of an actor that runs on, is still held by somebody (be it the
            // waiter itself) and was never asked to stop is not a hang, it is what was asked for
            if matches!(o.inner, Op::Join { .. } | Op::JoinFinish | Op::JoinPoll | Op::JoinCollect | Op::DropThenJoin { .. } | Op::Await { .. } | Op::Take { .. }) {
                // (the slot-less join ops belong to the client's owning address: the only actor)
                let target = o.target.or(if v.sc.actors.len() == 1 && matches!(o.inner, Op::JoinFinish | Op::JoinPoll | Op::JoinCollect) { Some(0) } else { None });
                let ends = target.and_then(|t| v.actor_of(t)).is_some_and(|a| {
                    let t = target.unwrap();
                    a.dead.is_some()
                        || v.stop_requests(t).iter().any(|r| r.accepted_ret.is_some())
                        || crate::census::census(v, t).t0().is_some_and(|x| x < v.phase_seq(Phase::ClientsDone))
                });
                if !ends {
                    continue;
                }
            }
            out.push(violation(
                P,
                "never-resolves",
                &format!("{}:{:?}", op_name(o.inner), o.hk),
                format!("client {} op {} ({:?}) begun at seq {} never returned ({})", o.client, o.idx, o.inner, o.begin, if v.out.outcome.hung { "system quiescent" } else { "step cap under fair scheduling" }),
            ));
        }
    }
    // (2b) awaits resolve *with the termination result*: an error when the actor failed
    for o in v.ops.iter().filter(|o| matches!(o.inner, Op::Await { .. }) && o.ended() && !o.skipped()) {
        let Some(a) = o.target.and_then(|t| v.actor_of(t)) else { continue };
        if a.dead.is_none() {
            continue;
        }
        crate::log::probe("c02_await_result_checked");
        let graceful = v.graceful(a);
        match o.res {
            Some(Res::Ok) if !graceful => out.push(violation(P, "await-ok-although-failed", "", format!("awaiting the address of actor {:?} returned Ok although the actor failed (how {:?}, fault injected: {})", a.aidx, a.how, v.fault_injected(a)))),
            Some(Res::Err(_)) if graceful => out.push(violation(P, "await-err-although-graceful", "", format!("awaiting the address of actor {:?} returned an error although it terminated gracefully", a.aidx))),
            _ => {}
        }
    }
    // (3) operations begun after the actor's task ended fail
    for o in &v.ops {
        if o.skipped() || !o.ended() {
            continue;
        }
        let Some(a) = o.target.and_then(|t| v.actor_of(t)) else { continue };
        let Some(dead) = a.dead else { continue };
        if o.begin < dead {
            continue;
        }
        let must_fail = matches!(
            o.inner,
            Op::Send { .. } | Op::ForceSend { .. } | Op::Call { .. } | Op::Ping { .. } | Op::Stop { .. } | Op::Restart { .. } | Op::Halt { .. } | Op::TryStop { .. } | Op::TryHalt { .. } | Op::Consume { .. } | Op::ConsumeSync { .. }
        );
        if must_fail {
            crate::log::probe("c02_op_after_death_checked");
            if !o.err() && !o.abandoned() {
                out.push(violation(
                    P,
                    "ok-after-death",
                    &format!("{}:{:?}", op_name(o.inner), o.hk),
                    format!("client {} op {:?} begun at seq {} after the actor's task had ended at {} returned {:?}", o.client, o.inner, o.begin, dead, o.res),
                ));
            }
        }
    }
    out
}

pub fn op_name(o: &Op) -> &'static str {
    match o {
        Op::Spawn { .. } => "spawn",
        Op::Acquire { .. } => "acquire",
        Op::Send { .. } => "send",
        Op::SendThenDrop { .. } => "send_then_drop",
        Op::ForceSend { .. } => "force_send",
        Op::Call { .. } => "call",
        Op::Ping { .. } => "ping",
        Op::Stop { .. } => "stop",
        Op::Halt { .. } => "halt",
        Op::Await { .. } => "await",
        Op::Restart { .. } => "restart",
        Op::TryStop { .. } => "try_stop",
        Op::TryHalt { .. } => "try_halt",
        Op::QueryStopped { .. } => "stopped",
        Op::QueryRunning { .. } => "running",
        Op::Join { .. } => "join",
        Op::Consume { .. } => "consume",
        Op::ConsumeSync { .. } => "consume_sync",
        Op::Detach { .. } => "detach",
        Op::DropThenJoin { .. } => "drop_then_join",
        Op::JoinStart { .. } => "join_start",
        Op::JoinFinish => "join_finish",
        Op::JoinDiscard => "join_discard",
        Op::JoinPoll => "join_poll",
        Op::JoinSpawn => "join_spawn",
        Op::JoinCollect => "join_collect",
        Op::JoinRotate => "join_rotate",
        Op::Clone { .. } => "clone",
        Op::Downgrade { .. } => "downgrade",
        Op::Upgrade { .. } => "upgrade",
        Op::ToSender { .. } => "sender",
        Op::ToCaller { .. } => "caller",
        Op::ToWeakSender { .. } => "weak_sender",
        Op::ToWeakCaller { .. } => "weak_caller",
        Op::ToAddr { .. } => "to_addr",
        Op::Drop { .. } => "drop",
        Op::Give { .. } => "give",
        Op::Take { .. } => "take",
        Op::FromRegistry { .. } => "from_registry",
        Op::Setup { .. } => "setup",
        Op::Register { .. } => "register",
        Op::Replace { .. } => "replace",
        Op::Unregister { .. } => "unregister",
        Op::TryFromRegistry { .. } => "try_from_registry",
        Op::AlreadyRunning { .. } => "already_running",
        Op::Publish { .. } => "publish",
        Op::BrokerPing { .. } => "broker_ping",
        Op::Unsubscribe { .. } => "unsubscribe",
        Op::SubscribeExt { .. } => "subscribe",
        Op::Feed { .. } => "feed",
        Op::Yield(_) => "yield",
        Op::Sleep(_) => "sleep",
        Op::CancelAfter { .. } => "cancel_after",
    }
}

pub fn nontrivial(v: &View) -> bool {
    let calls: Vec<&OpRec> = v.ops.iter().filter(|o| matches!(o.inner, Op::Call { .. }) && !o.skipped()).collect();
    for (i, a) in calls.iter().enumerate() {
        for b in calls.iter().skip(i + 1) {
            let (ae, be) = (a.end.unwrap_or(u64::MAX), b.end.unwrap_or(u64::MAX));
            if a.client != b.client && a.begin < be && b.begin < ae && a.suspended() && b.suspended() {
                return true;
            }
        }
    }
    for o in v.ops.iter().filter(|o| matches!(o.inner, Op::Call { .. } | Op::Ping { .. }) && !o.skipped()) {
        if let Some(a) = o.target.and_then(|t| v.actor_of(t)) {
            if let Some(d) = a.dead {
                if o.begin < d && o.end.is_none_or(|e| e > d) {
                    return true;
                }
            }
        }
    }
    false
}
