//! C15 — every strong handle kind keeps the actor fully functional, not just reachable.
use super::PropDef;
use crate::analysis::*;
use crate::census::census;
use crate::log::*;
use crate::model::*;
use crate::sgen::*;

const P: &str = "C15";

pub fn def() -> PropDef {
    PropDef {
        id: P,
        level: "exploration",
        generate,
        check,
        nontrivial,
        rule: "enumeration (by run index) of all 15 non-empty subsets of {Addr, OwningAddr, Sender, Caller} left alive after a generated conversion/drop program (handles derived along different conversion chains, some replaced by clones of themselves, dropped in random order), then: interval ticks counted on the virtual clock, every weak handle taken earlier upgraded, identity asked through every surviving callable handle, and Context::stop / Context::restart / weak self-upgrade issued from inside a handler reached through a surviving handle; x seeded schedules; non-trivial = the surviving subset is not the full set; distinct = distinct order of client-op and callback events",
        needed_probes: &["c15_upgrade_checked", "c15_ctx_op_checked", "c15_ticks_checked", "c15_ticks_after_restart_checked", "c15_identity_checked", "c15_subset_1", "c15_subset_8", "c15_subset_15"],
        quick_runs: 200_000,
        thorough_runs: 1_000_000,
        block: 1,
        flavours: &["tokio"],
        outcome: None,
        extra_profiles: &[],
        adapt: None,
    }
}

const KINDS: [HKind; 4] = [HKind::Addr, HKind::Owning, HKind::Sender, HKind::Caller];
// slots: 0 Owning, 1 Addr, 2 Sender, 3 Caller, 4 WeakAddr, 5 WeakSender, 6 WeakCaller, 7 scratch
fn slot_of(k: HKind) -> Slot {
    match k {
        HKind::Owning => 0,
        HKind::Addr => 1,
        HKind::Sender => 2,
        HKind::Caller => 3,
        HKind::WeakAddr => 4,
        HKind::WeakSender => 5,
        _ => 6,
    }
}

pub fn subset_of(index: u64) -> Vec<HKind> {
    let mask = (index % 15) + 1;
    KINDS.iter().enumerate().filter(|(i, _)| mask & (1 << i) != 0).map(|(_, k)| *k).collect()
}

pub fn generate(g: &mut G, index: u64) -> Scenario {
    let keep = subset_of(index);
    let mut sc = Scenario::empty(0);
    let period = g.range(5, 12);
    let spec = ActorSpec {
        mailbox: g.mailbox(),
        entry: Entry::BuilderSpawnOwning,
        on_start: vec![Work::Timer(TimerSpec { id: 0, kind: g.pick(&[TimerKind::Interval, TimerKind::IntervalWith]), period, handler_sleep: 0 })],
        ..Default::default()
    };
    let mut spec = spec;
    if g.chance(1, 3) {
        // `started()` goes on for a while after it has registered the timer (also on a restart)
        spec.on_start.push(Work::Sleep(period * g.range(1, 3) + g.below(3)));
    }
    sc.actors.push(spec);
    let mut ops = vec![Op::Spawn { spec: 0, slot: 0 }, Op::Clone { h: 0, to: 1 }];
    // strong kinds, along different conversion chains
    let from = |g: &mut G| if g.chance(1, 2) { 0 } else { 1 };
    let f = from(g);
    ops.push(Op::ToSender { h: f, to: 2 });
    let f = from(g);
    ops.push(Op::ToCaller { h: f, to: 3 });
    // weak kinds taken "earlier" (while everything is still there)
    let f = from(g);
    ops.push(Op::Downgrade { h: f, to: 4 });
    if g.chance(1, 2) {
        ops.push(Op::Downgrade { h: 2, to: 5 });
    } else {
        let f = from(g);
        ops.push(Op::ToWeakSender { h: f, to: 5 });
    }
    if g.chance(1, 2) {
        ops.push(Op::Downgrade { h: 3, to: 6 });
    } else {
        let f = from(g);
        ops.push(Op::ToWeakCaller { h: f, to: 6 });
    }
    if g.chance(1, 2) {
        ops.push(Op::Ping { h: 0 });
    }
    // "(or clone)": some of the handles that will be kept are replaced by clones of themselves
    for k in [HKind::Addr, HKind::Sender, HKind::Caller] {
        if keep.contains(&k) && g.chance(1, 3) {
            let s = slot_of(k);
            ops.push(Op::Clone { h: s, to: 7 });
            ops.push(Op::Drop { h: s });
            ops.push(Op::Clone { h: 7, to: s });
            ops.push(Op::Drop { h: 7 });
        }
    }
    // drop what is not in the subset, in random order
    let mut drops: Vec<HKind> = KINDS.iter().copied().filter(|k| !keep.contains(k)).collect();
    for i in (1..drops.len()).rev() {
        let j = g.below(i as u64 + 1) as usize;
        drops.swap(i, j);
    }
    for k in drops {
        ops.push(Op::Drop { h: slot_of(k) });
        g.maybe_yield(&mut ops);
    }
    ops.push(Op::Sleep(period * g.range(4, 7) + 1));
    // weak handles must upgrade as long as any strong handle exists
    for w in [4usize, 5, 6] {
        ops.push(Op::Upgrade { h: w, to: 7 });
        if g.chance(1, 2) {
            // use the upgraded handle
            match w {
                4 | 6 => ops.push(Op::Call { h: 7, id: g.id(), work: vec![] }),
                _ => ops.push(Op::Send { h: 7, id: g.id(), work: vec![] }),
            }
        }
        ops.push(Op::Drop { h: 7 });
    }
    // identity through every surviving callable handle
    for k in &keep {
        match k {
            HKind::Sender => ops.push(Op::Send { h: 2, id: g.id(), work: vec![] }),
            k => ops.push(Op::Call { h: slot_of(*k), id: g.id(), work: vec![] }),
        }
    }
    // a command from inside a handler, reached through a surviving handle
    let cmd = g.pick(&[Work::CtxStop, Work::CtxRestart, Work::SelfUpgrade, Work::CtxRestart]);
    let via = g.pick(&keep);
    let id = g.id();
    // ... sometimes after the handler has been busy for a few periods, so that interval ticks
    // have piled up in the mailbox (bounded ones included) when the command is issued
    let mut work = vec![];
    if g.chance(1, 2) {
        work.push(Work::Sleep(period * g.range(1, 4) + g.below(3)));
    }
    work.push(cmd);
    ops.push(match via {
        HKind::Sender => Op::Send { h: 2, id, work },
        k => Op::Call { h: slot_of(k), id, work },
    });
    ops.push(Op::Sleep(period * 3));
    // and the weak handles still upgrade afterwards (unless the command was stop)
    ops.push(Op::Upgrade { h: 4, to: 7 });
    ops.push(Op::Drop { h: 7 });
    sc.clients.push(ClientSpec { ops });
    sc.sched = g.sched(false);
    sc.settle_ns = 50;
    sc
}

fn held(v: &View) -> String {
    // which strong kinds are left alive when the observation phase (the first sleep) begins:
    // replay the program's handle operations symbolically
    let mut present = std::collections::BTreeSet::new();
    for o in &v.sc.clients[0].ops {
        match o {
            Op::Spawn { slot, .. } => {
                present.insert(*slot);
            }
            Op::Clone { h, to } | Op::ToSender { h, to } | Op::ToCaller { h, to } | Op::Downgrade { h, to } | Op::ToWeakSender { h, to } | Op::ToWeakCaller { h, to } => {
                if present.contains(h) {
                    present.insert(*to);
                }
            }
            Op::Drop { h } => {
                present.remove(h);
            }
            Op::Sleep(_) => break,
            _ => {}
        }
    }
    let mut s = vec![];
    for k in KINDS {
        if present.contains(&slot_of(k)) {
            s.push(format!("{k:?}"));
        }
    }
    s.join("+")
}

pub fn check(v: &View) -> Vec<Violation> {
    let mut out = vec![];
    let Some(a) = v.actor_of(0) else { return out };
    let held = held(v);
    let cen = census(v, 0);
    let stop_req = v.stop_requests(0).iter().map(|r| r.begin).min().unwrap_or(u64::MAX);
    let alive_until = a.dead.unwrap_or(u64::MAX).min(stop_req);
    // as long as any strong handle exists the actor keeps running (nobody asked it to stop)
    if let Some(d) = a.dead {
        let ctx_stop = v.out.log.iter().any(|r| matches!(r.ev, Ev::CtxRes { aidx: 0, what: CtxOp::Stop, ok: true, .. }) && r.st.seq < d);
        if !ctx_stop && stop_req > d && !v.fault_injected(a) && cen.certain_at(d) > 0 {
            out.push(violation(P, "terminated-while-held", &format!("held={held}"), format!("the actor terminated at seq {d} although it was held by {held} ({} strong handle(s)) and nobody had asked it to stop", cen.certain_at(d))));
        }
    }
    // upgrades
    for o in v.ops.iter().filter(|o| matches!(o.inner, Op::Upgrade { .. }) && o.ended() && !o.skipped()) {
        if o.begin < alive_until && cen.certain_at(o.begin) > 0 && !v.fault_injected(a) {
            crate::log::probe("c15_upgrade_checked");
            if !matches!(o.res, Some(Res::Handle(true))) {
                out.push(violation(P, "weak-handle-does-not-upgrade", &format!("{:?}:held={held}", o.hk.unwrap()), format!("{:?} upgrade at seq {} failed although the actor was running and held by {} ({} strong handle(s))", o.hk.unwrap(), o.begin, held, cen.certain_at(o.begin))));
            }
        }
    }
    // context operations from inside handlers
    for r in &v.out.log {
        if let Ev::CtxRes { aidx: 0, what, ok, id, .. } = &r.ev {
            let stop_accepted_before = v.stop_requests(0).iter().any(|q| q.accepted_ret.is_some_and(|t| t < r.st.seq));
            if !stop_accepted_before && cen.certain_at(r.st.seq) > 0 && a.dead.is_none_or(|d| r.st.seq < d) {
                crate::log::probe("c15_ctx_op_checked");
                if !*ok {
                    let name = match what {
                        CtxOp::Stop => "Context::stop",
                        CtxOp::Restart => "Context::restart",
                        CtxOp::SelfUpgrade => "Context::weak_address.upgrade",
                        _ => "context-op",
                    };
                    out.push(violation(P, "context-op-fails-while-held", &format!("{name}:held={held}"), format!("{name} inside the handler of message {id} failed at seq {} although the actor is held by {held}", r.st.seq)));
                } else {
                    // the effect must follow
                    match what {
                        CtxOp::Stop => {
                            if v.out.outcome.quiescent_at_end && !v.graceful(a) {
                                out.push(violation(P, "context-stop-without-effect", &format!("held={held}"), format!("Context::stop returned Ok at seq {} but the actor did not terminate gracefully", r.st.seq)));
                            }
                        }
                        CtxOp::Restart => {
                            let later_start = v.cbs_of(a).any(|c| c.cb == Cb::Started && c.enter > r.st.seq);
                            if v.out.outcome.quiescent_at_end && !later_start {
                                out.push(violation(P, "context-restart-without-effect", &format!("held={held}"), format!("Context::restart returned Ok at seq {} but no new incarnation was started", r.st.seq)));
                            }
                        }
                        _ => {}
                    }
                }
            }
        }
    }
    // timers keep firing: between the last drop and the command, on the ideal clock
    if v.sc.sched.racing_per_mille == 0 {
        let period = v.sc.actors[0].on_start.iter().find_map(|w| if let Work::Timer(t) = w { Some(t.period) } else { None }).unwrap_or(10);
        let sleep = v.ops.iter().find(|o| matches!(o.inner, Op::Sleep(_)) && o.ended());
        if let Some(s) = sleep {
            if a.dead.is_none_or(|d| d > s.end.unwrap()) {
                crate::log::probe("c15_ticks_checked");
                // (counted from the end of `started()`: while that is still going on a waiting tick
                // legitimately sits in front of a full bounded mailbox)
                let from = v.cbs_of(a).find(|c| c.cb == Cb::Started).map(|c| c.exit_vt).unwrap_or(0).max(s.begin_vt);
                let n = v.out.log.iter().filter(|r| matches!(r.ev, Ev::TimerSubmit { aidx: 0, .. }) && r.st.vtime > from && r.st.vtime <= s.end_vt).count() as u64;
                let expect = s.end_vt.saturating_sub(from) / period;
                if n + 1 < expect {
                    out.push(violation(P, "timer-stops-while-held", &format!("held={held}"), format!("only {n} interval submissions in virtual [{} , {}] (period {period}, expected about {expect}) although the actor is held by {held}", s.begin_vt, s.end_vt)));
                }
            }
        }
    }
    // ... and after a self-restart: the timer that the new incarnation's `started()` registers
    // keeps firing (ideal clock; from the end of that `started()` to the end of the last sleep)
    if v.sc.sched.racing_per_mille == 0 && !v.fault_injected(a) {
        let period = v.sc.actors[0].on_start.iter().find_map(|w| if let Work::Timer(t) = w { Some(t.period) } else { None }).unwrap_or(10);
        let restarted = v.out.log.iter().any(|r| matches!(r.ev, Ev::CtxRes { aidx: 0, what: CtxOp::Restart, ok: true, .. }));
        let second_start = v.cbs_of(a).filter(|c| c.cb == Cb::Started).nth(1).filter(|c| c.exit.is_some() && c.ok);
        let last_sleep = v.ops.iter().filter(|o| matches!(o.inner, Op::Sleep(_)) && o.ended()).last();
        if let (true, Some(st), Some(sl)) = (restarted, second_start, last_sleep) {
            let from = st.enter_vt; // the timer is registered at the beginning of started()
            let alive = a.dead.is_none_or(|d| d > sl.end.unwrap()) && v.stop_requests(0).is_empty();
            if alive && sl.end_vt > from + 2 * period && st.exit_vt < sl.end_vt {
                crate::log::probe("c15_ticks_after_restart_checked");
                let n = v.out.log.iter().filter(|r| matches!(r.ev, Ev::TimerSubmit { aidx: 0, .. }) && r.st.vtime > from && r.st.vtime <= sl.end_vt).count() as u64;
                if n == 0 {
                    out.push(violation(P, "timer-stops-while-held", &format!("after-restart:held={held}"), format!("no interval submission in virtual ({from}, {}] (period {period}) after the self-restart although the actor is held by {held}", sl.end_vt)));
                }
            }
        }
    }
    // identity
    let mut inst: Option<u32> = None;
    for o in v.ops.iter().filter(|o| matches!(o.inner, Op::Call { .. })) {
        if let Some(Res::Reply(r)) = o.res {
            crate::log::probe("c15_identity_checked");
            if r.aidx != 0 || inst.is_some_and(|i| i != r.inst) {
                out.push(violation(P, "conversion-changed-actor", &format!("{:?}", o.hk.unwrap()), format!("call through {:?} was answered by actor {} instance {}, others by instance {:?}", o.hk.unwrap(), r.aidx, r.inst, inst)));
            }
            inst = Some(r.inst);
        }
    }
    // while held and running, calls through surviving handles succeed
    for o in v.ops.iter().filter(|o| matches!(o.inner, Op::Call { .. } | Op::Send { .. }) && o.ended() && !o.skipped()) {
        if o.end.unwrap() < alive_until && o.hk.is_some_and(|k| k.strong()) && !o.ok() {
            out.push(violation(P, "submission-fails-while-held", &format!("{:?}:held={held}", o.hk.unwrap()), format!("{:?} through {:?} returned {:?} although the actor was running", o.inner, o.hk.unwrap(), o.res)));
        }
    }
    let mask = KINDS.iter().enumerate().filter(|(_, k)| held.split('+').any(|h| h == format!("{k:?}"))).map(|(i, _)| 1u32 << i).sum::<u32>();
    match mask {
        1 => crate::log::probe("c15_subset_1"),
        8 => crate::log::probe("c15_subset_8"),
        15 => crate::log::probe("c15_subset_15"),
        _ => {}
    }
    out
}

pub fn nontrivial(v: &View) -> bool {
    held(v) != "Addr+Owning+Sender+Caller"
}
