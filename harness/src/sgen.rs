//! Helpers shared by the per-property scenario generators. Everything is drawn from one PRNG.
use crate::model::*;
use simrt::Rng;

pub struct G {
    pub rng: Rng,
    next_id: u64,
    pub thorough: bool,
}

impl G {
    pub fn new(seed: u64, thorough: bool) -> G {
        G { rng: Rng::new(seed), next_id: 0, thorough }
    }
    /// a fresh message id / nonce, unique within the scenario
    pub fn id(&mut self) -> u64 {
        self.next_id += 1;
        self.next_id
    }
    pub fn below(&mut self, n: u64) -> u64 {
        self.rng.below(n)
    }
    /// inclusive range
    pub fn range(&mut self, lo: u64, hi: u64) -> u64 {
        lo + self.rng.below(hi - lo + 1)
    }
    pub fn chance(&mut self, num: u64, den: u64) -> bool {
        self.rng.chance(num, den)
    }
    pub fn pick<T: Clone>(&mut self, xs: &[T]) -> T {
        xs[self.rng.below(xs.len() as u64) as usize].clone()
    }

    /// swarm-style scheduler configuration: policy, clock mode and buggify vary per run
    pub fn sched(&mut self, racing_allowed: bool) -> SchedSpec {
        let r = self.below(100);
        let policy = if r < 34 {
            PolicySpec::Uniform
        } else if r < 60 {
            PolicySpec::Pct { d: self.range(1, 3) as u32, horizon: self.range(20, 300) as u32 }
        } else if r < 68 {
            PolicySpec::StarveActors
        } else if r < 76 {
            PolicySpec::StarveClients
        } else if r < 80 {
            PolicySpec::StarveTimers
        } else if r < 92 {
            PolicySpec::Bursty
        } else if r < 96 {
            PolicySpec::LowestId
        } else {
            PolicySpec::HighestId
        };
        let racing = if racing_allowed && self.chance(1, 3) { self.pick(&[20u32, 50, 100, 300]) } else { 0 };
        let spurious = if self.chance(1, 16) { 20 } else { 0 };
        SchedSpec { seed: self.rng.next(), policy, racing_per_mille: racing, spurious_per_mille: spurious, decisions: None }
    }

    /// what a handler does: mostly nothing, sometimes yields or a short virtual sleep
    pub fn light_work(&mut self) -> Vec<Work> {
        let r = self.below(100);
        if r < 55 {
            vec![]
        } else if r < 85 {
            vec![Work::Yield(self.range(1, 3) as u32)]
        } else {
            vec![Work::Sleep(self.range(1, 6))]
        }
    }

    pub fn maybe_yield(&mut self, ops: &mut Vec<Op>) {
        if self.chance(1, 3) {
            ops.push(Op::Yield(self.range(1, 2) as u32));
        }
    }

    pub fn mailbox(&mut self) -> Option<usize> {
        match self.below(8) {
            0..=2 => None,
            3 => Some(0),
            4 => Some(1),
            5 => Some(2),
            6 => Some(3),
            _ => Some(1),
        }
    }
}

/// Symbolic view of what a client's slots hold while its program is being generated.
#[derive(Clone, Debug, Default)]
pub struct Slots {
    pub kinds: Vec<Option<HKind>>,
}
impl Slots {
    pub fn set(&mut self, s: Slot, k: Option<HKind>) {
        while self.kinds.len() <= s {
            self.kinds.push(None);
        }
        self.kinds[s] = k;
    }
    pub fn get(&self, s: Slot) -> Option<HKind> {
        self.kinds.get(s).copied().flatten()
    }
    pub fn of_kind(&self, ks: &[HKind]) -> Vec<Slot> {
        self.kinds
            .iter()
            .enumerate()
            .filter(|(_, k)| k.is_some_and(|k| ks.contains(&k)))
            .map(|(i, _)| i)
            .collect()
    }
    pub fn free(&self) -> Slot {
        self.kinds.iter().position(|k| k.is_none()).unwrap_or(self.kinds.len())
    }
    pub fn any(&self) -> Vec<Slot> {
        self.kinds.iter().enumerate().filter(|(_, k)| k.is_some()).map(|(i, _)| i).collect()
    }
}

/// op that derives a handle of kind `k` from an `Addr`/`Owning` in slot `from` into slot `to`
pub fn derive(k: HKind, from: Slot, to: Slot) -> Op {
    match k {
        HKind::Addr => Op::Clone { h: from, to },
        HKind::Sender => Op::ToSender { h: from, to },
        HKind::Caller => Op::ToCaller { h: from, to },
        HKind::WeakAddr => Op::Downgrade { h: from, to },
        HKind::WeakSender => Op::ToWeakSender { h: from, to },
        HKind::WeakCaller => Op::ToWeakCaller { h: from, to },
        HKind::Owning => Op::Clone { h: from, to },
    }
}

// ------------------------------------------------------------------------------------------
// one-actor family: an actor, 1-4 clients holding derived handles, the primary handle with client 0

pub const PRIMARY: Slot = 8;
pub const TMP: Slot = 9;

pub struct Fam {
    pub sc: Scenario,
    pub slots: Vec<Slots>,
    pub owning: bool,
    /// number of leading `Take` ops per client (programs are inserted after them)
    pub takes: Vec<usize>,
}

pub fn one_actor(g: &mut G, spec: ActorSpec, nclients: usize, kinds: &[HKind], per_client: (u64, u64)) -> Fam {
    let mut sc = Scenario::empty(0);
    let owning = spec.entry.owning();
    let mut spec = spec;
    // the order / builder stage in which timeout and fail_on_timeout are configured varies too
    spec.cfg_order = g.below(6) as u8;
    sc.actors.push(spec);
    sc.setup.push(Op::Spawn { spec: 0, slot: 0 });
    let mut slots: Vec<Slots> = vec![Slots::default(); nclients];
    for (c, sl) in slots.iter_mut().enumerate() {
        let n = g.range(per_client.0, per_client.1) as usize;
        for k in 0..n {
            let kind = g.pick(kinds);
            sc.setup.push(derive(kind, 0, 1));
            sc.setup.push(Op::Give { h: 1, client: c as u32, to: k });
            sl.set(k, Some(kind));
        }
    }
    sc.setup.push(Op::Give { h: 0, client: 0, to: PRIMARY });
    slots[0].set(PRIMARY, Some(if owning { HKind::Owning } else { HKind::Addr }));
    let mut takes = vec![];
    for sl in &slots {
        let mut ops = vec![];
        for s in sl.any() {
            ops.push(Op::Take { to: s });
        }
        takes.push(ops.len());
        sc.clients.push(ClientSpec { ops });
    }
    Fam { sc, slots, owning, takes }
}

impl Fam {
    /// a random position in client c's program (after its Takes)
    pub fn pos(&self, g: &mut G, c: usize) -> usize {
        let lo = self.takes[c];
        let hi = self.sc.clients[c].ops.len();
        g.range(lo as u64, hi as u64) as usize
    }
    pub fn insert(&mut self, c: usize, at: usize, ops: Vec<Op>) {
        let tail = self.sc.clients[c].ops.split_off(at);
        self.sc.clients[c].ops.extend(ops);
        self.sc.clients[c].ops.extend(tail);
    }
    pub fn nclients(&self) -> usize {
        self.slots.len()
    }
    /// a (client, slot) that holds a handle of one of the kinds
    pub fn holder(&self, g: &mut G, ks: &[HKind]) -> Option<(usize, Slot)> {
        let mut all = vec![];
        for (c, sl) in self.slots.iter().enumerate() {
            for s in sl.of_kind(ks) {
                all.push((c, s));
            }
        }
        if all.is_empty() { None } else { Some(g.pick(&all)) }
    }
}

#[derive(Clone, Copy, Debug, PartialEq, Eq)]
pub enum Cause {
    None,
    Stop,
    Halt,
    TryStop,
    TryHalt,
    CtxStop,
    Consume,
    LastDrop,
    StartErr,
    HandlerPanic,
    TimeoutFail,
    CancelPoll,
    CancelStep,
    /// a restart whose `started()` fails
    RestartErr,
}
impl Cause {
    pub fn failure(self) -> bool {
        matches!(self, Cause::StartErr | Cause::HandlerPanic | Cause::TimeoutFail | Cause::CancelPoll | Cause::CancelStep | Cause::RestartErr)
    }
}

/// A restart in mid-run whose lifecycle hooks take a while (a restart is neither a stop nor a
/// failure: whatever the property says must hold across it, and while it is in progress). The
/// request goes through an `Addr` / owning handle some client holds, at a random position.
pub fn add_slow_restart(g: &mut G, fam: &mut Fam) -> bool {
    let holders: Vec<(usize, Slot)> = (0..fam.nclients()).flat_map(|c| fam.slots[c].of_kind(&[HKind::Addr, HKind::Owning]).into_iter().map(move |s| (c, s))).collect();
    if holders.is_empty() || fam.sc.actors[0].restart == Restart::NonRestartable || fam.sc.actors[0].stream.is_some() {
        return false;
    }
    let (c, s) = g.pick(&holders);
    let hook = if g.chance(1, 2) { Work::Sleep(g.range(3, 30)) } else { Work::Yield(g.range(1, 3) as u32) };
    fam.sc.actors[0].on_start.insert(0, hook);
    if g.chance(1, 2) {
        fam.sc.actors[0].stopped_yields = fam.sc.actors[0].stopped_yields.max(g.range(1, 2) as u32);
    }
    let at = fam.pos(g, c);
    let op = if g.chance(2, 3) { Op::Restart { h: s } } else { Op::Send { h: s, id: g.id(), work: vec![Work::CtxRestart] } };
    fam.insert(c, at, vec![op]);
    true
}

/// `Context::stop()` from inside a handler - which then returns at once, or goes on for a few
/// more polls / some virtual time (the stop request has been accepted when `stop()` returned,
/// not when the handler ends)
pub fn ctx_stop_work(g: &mut G) -> Vec<Work> {
    match g.below(4) {
        0 => vec![Work::CtxStop, Work::Yield(g.range(1, 2) as u32)],
        1 => vec![Work::CtxStop, Work::Sleep(g.range(1, 6))],
        _ => vec![Work::CtxStop],
    }
}

/// Plant one termination cause at a random position of the family's programs.
pub fn apply_cause(g: &mut G, fam: &mut Fam, cause: Cause) {
    match cause {
        Cause::None | Cause::LastDrop => {
            if cause == Cause::LastDrop {
                let at = fam.pos(g, 0);
                fam.insert(0, at, vec![Op::Drop { h: PRIMARY }]);
            }
        }
        Cause::Stop => {
            let at = fam.pos(g, 0);
            fam.insert(0, at, vec![Op::Stop { h: PRIMARY }]);
        }
        Cause::Halt => {
            let at = fam.pos(g, 0);
            fam.insert(0, at, vec![Op::Clone { h: PRIMARY, to: TMP }, Op::Halt { h: TMP }]);
        }
        Cause::TryStop => {
            let at = fam.pos(g, 0);
            fam.insert(0, at, vec![Op::Downgrade { h: PRIMARY, to: TMP }, Op::TryStop { h: TMP }]);
        }
        Cause::TryHalt => {
            let at = fam.pos(g, 0);
            fam.insert(0, at, vec![Op::Downgrade { h: PRIMARY, to: TMP }, Op::TryHalt { h: TMP }]);
        }
        Cause::CtxStop => {
            let at = fam.pos(g, 0);
            let id = g.id();
            let op = if g.chance(1, 2) {
                Op::Send { h: PRIMARY, id, work: ctx_stop_work(g) }
            } else {
                Op::Call { h: PRIMARY, id, work: ctx_stop_work(g) }
            };
            fam.insert(0, at, vec![op]);
        }
        Cause::Consume => {
            let at = fam.pos(g, 0);
            let op = if fam.owning {
                if g.chance(1, 2) { Op::Consume { h: PRIMARY } } else { Op::ConsumeSync { h: PRIMARY } }
            } else {
                Op::Stop { h: PRIMARY }
            };
            fam.insert(0, at, vec![op]);
        }
        Cause::StartErr => fam.sc.faults.push(Fault { actor: 0, kind: FaultKind::StartErr { nth: 0 } }),
        Cause::RestartErr => {
            let at = fam.pos(g, 0);
            let op = if g.chance(1, 2) { Op::Restart { h: PRIMARY } } else { Op::Send { h: PRIMARY, id: g.id(), work: vec![Work::CtxRestart] } };
            fam.insert(0, at, vec![op]);
            fam.sc.faults.push(Fault { actor: 0, kind: FaultKind::StartErr { nth: 1 } })
        }
        Cause::HandlerPanic => {
            let k = g.range(0, 6) as u32;
            fam.sc.faults.push(Fault { actor: 0, kind: FaultKind::PanicAtCb { k } })
        }
        Cause::TimeoutFail => {
            let t = g.range(10, 30);
            fam.sc.actors[0].timeout = Some(t);
            fam.sc.actors[0].fail_on_timeout = true;
            let at = fam.pos(g, 0);
            let id = g.id();
            let op = if g.chance(1, 2) {
                Op::Send { h: PRIMARY, id, work: vec![Work::Sleep(3 * t)] }
            } else {
                Op::Call { h: PRIMARY, id, work: vec![Work::Sleep(3 * t)] }
            };
            fam.insert(0, at, vec![op]);
        }
        Cause::CancelPoll => {
            let j = g.range(1, 8) as u32;
            fam.sc.faults.push(Fault { actor: 0, kind: FaultKind::CancelBeforePoll { j } })
        }
        Cause::CancelStep => {
            let s = g.range(4, 90);
            fam.sc.faults.push(Fault { actor: 0, kind: FaultKind::CancelAtStep { s } })
        }
    }
}

/// fill the clients' programs with random submissions through the handles they hold
pub fn fill_submissions(g: &mut G, fam: &mut Fam, max_ops: u64, cancel_one_in: u64) {
    // the thorough tier also explores longer programs
    let max_ops = if g.thorough && g.chance(1, 3) { max_ops * 2 } else { max_ops };
    for c in 0..fam.nclients() {
        let n = g.range(1, max_ops);
        let mut ops = vec![];
        for _ in 0..n {
            let avail = fam.slots[c].any();
            let s = g.pick(&avail);
            let k = fam.slots[c].get(s).unwrap();
            let op = crate::props::c01::submission(g, k, s);
            if cancel_one_in > 0 && g.chance(1, cancel_one_in) {
                ops.push(Op::CancelAfter { polls: g.range(1, 3) as u32, op: Box::new(op) });
            } else {
                ops.push(op);
            }
            g.maybe_yield(&mut ops);
        }
        fam.sc.clients[c].ops.extend(ops);
    }
}
