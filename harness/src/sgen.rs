//! Helpers shared by the per-property scenario generators. Everything is drawn from one PRNG.
use crate::model::*;
use simrt::Rng;

pub struct G {
    pub rng: Rng,
    next_id: u64,
    pub thorough: bool,
}

impl G {
    pub fn new(seed: u64, thorough: bool) -> G {
        G { rng: Rng::new(seed), next_id: 0, thorough }
    }
    /// a fresh message id / nonce, unique within the scenario
    pub fn id(&mut self) -> u64 {
        self.next_id += 1;
        self.next_id
    }
    pub fn below(&mut self, n: u64) -> u64 {
        self.rng.below(n)
    }
    /// inclusive range
    pub fn range(&mut self, lo: u64, hi: u64) -> u64 {
        lo + self.rng.below(hi - lo + 1)
    }
    pub fn chance(&mut self, num: u64, den: u64) -> bool {
        self.rng.chance(num, den)
    }
    pub fn pick<T: Clone>(&mut self, xs: &[T]) -> T {
        xs[self.rng.below(xs.len() as u64) as usize].clone()
    }

    /// swarm-style scheduler configuration: policy, clock mode and buggify vary per run
    pub fn sched(&mut self, racing_allowed: bool) -> SchedSpec {
        let r = self.below(100);
        let policy = if r < 34 {
            PolicySpec::Uniform
        } else if r < 60 {
            PolicySpec::Pct { d: self.range(1, 3) as u32, horizon: self.range(20, 300) as u32 }
        } else if r < 68 {
            PolicySpec::StarveActors
        } else if r < 76 {
            PolicySpec::StarveClients
        } else if r < 80 {
            PolicySpec::StarveTimers
        } else if r < 92 {
            PolicySpec::Bursty
        } else if r < 96 {
            PolicySpec::LowestId
        } else {
            PolicySpec::HighestId
        };
        let racing = if racing_allowed && self.chance(1, 3) { self.pick(&[20u32, 50, 100, 300]) } else { 0 };
        let spurious = if self.chance(1, 16) { 20 } else { 0 };
        SchedSpec { seed: self.rng.next(), policy, racing_per_mille: racing, spurious_per_mille: spurious, decisions: None }
    }

    /// what a handler does: mostly nothing, sometimes yields or a short virtual sleep
    pub fn light_work(&mut self) -> Vec<Work> {
        let r = self.below(100);
        if r < 55 {
            vec![]
        } else if r < 85 {
            vec![Work::Yield(self.range(1, 3) as u32)]
        } else {
            vec![Work::Sleep(self.range(1, 6))]
        }
    }

    pub fn maybe_yield(&mut self, ops: &mut Vec<Op>) {
        if self.chance(1, 3) {
            ops.push(Op::Yield(self.range(1, 2) as u32));
        }
    }

    pub fn mailbox(&mut self) -> Option<usize> {
        match self.below(8) {
            0..=2 => None,
            3 => Some(0),
            4 => Some(1),
            5 => Some(2),
            6 => Some(3),
            _ => Some(1),
        }
    }
}

/// Symbolic view of what a client's slots hold while its program is being generated.
#[derive(Clone, Debug, Default)]
pub struct Slots {
    pub kinds: Vec<Option<HKind>>,
}
impl Slots {
    pub fn set(&mut self, s: Slot, k: Option<HKind>) {
        while self.kinds.len() <= s {
            self.kinds.push(None);
        }
        self.kinds[s] = k;
    }
    pub fn get(&self, s: Slot) -> Option<HKind> {
        self.kinds.get(s).copied().flatten()
    }
    pub fn of_kind(&self, ks: &[HKind]) -> Vec<Slot> {
        self.kinds
            .iter()
            .enumerate()
            .filter(|(_, k)| k.is_some_and(|k| ks.contains(&k)))
            .map(|(i, _)| i)
            .collect()
    }
    pub fn free(&self) -> Slot {
        self.kinds.iter().position(|k| k.is_none()).unwrap_or(self.kinds.len())
    }
    pub fn any(&self) -> Vec<Slot> {
        self.kinds.iter().enumerate().filter(|(_, k)| k.is_some()).map(|(i, _)| i).collect()
    }
}

/// op that derives a handle of kind `k` from an `Addr`/`Owning` in slot `from` into slot `to`
pub fn derive(k: HKind, from: Slot, to: Slot) -> Op {
    match k {
        HKind::Addr => Op::Clone { h: from, to },
        HKind::Sender => Op::ToSender { h: from, to },
        HKind::Caller => Op::ToCaller { h: from, to },
        HKind::WeakAddr => Op::Downgrade { h: from, to },
        HKind::WeakSender => Op::ToWeakSender { h: from, to },
        HKind::WeakCaller => Op::ToWeakCaller { h: from, to },
        HKind::Owning => Op::Clone { h: from, to },
    }
}
