//! simrt — the deterministic simulator under which the unmodified hannibal sources run.
//!
//! * single OS thread, one simulation at a time per thread (thread-local state)
//! * a task is a boxed `!Send` future; one *step* = choose one runnable task and poll it once
//! * the runnable **set** is ordered by task id, so the order in which wakers fire is unobservable
//! * virtual clock in nanoseconds, discrete-event: jumps when nothing is runnable (ideal) or,
//!   with a per-run probability, although tasks are runnable (racing)
//! * every choice comes from PRNG streams derived from one seed; every choice is recorded
//! * faults: task cancellation before the j-th poll / at a global step, spurious polls
//!
//! Nothing in here reads a real clock, spawns a thread or consults an unseeded PRNG.

use std::cell::RefCell;
use std::collections::{BTreeMap, BTreeSet};
use std::future::Future;
use std::panic::AssertUnwindSafe;
use std::pin::Pin;
use std::sync::{Arc, Mutex};
use std::task::{Context, Poll, Wake, Waker};

pub type TaskId = u32;
/// Marker in the decision list: "the clock jumped to the next deadline although tasks were runnable".
pub const CLOCK_JUMP: u32 = u32::MAX;
/// Marker in the decision list: the following entry is a spurious poll of a non-runnable task.
pub const SPURIOUS: u32 = u32::MAX - 1;

#[derive(Clone, Copy, Debug, PartialEq, Eq, Hash, PartialOrd, Ord)]
pub enum TaskKind {
    Harness,
    Client,
    /// spawned through a runtime stub with a non-unit output: an actor's event loop
    ActorLoop,
    /// spawned through a runtime stub with unit output: timers of `Context`
    LibFuture,
}

#[derive(Clone, Copy, Debug, PartialEq, Eq, Hash)]
pub enum DoneHow {
    Completed,
    Panicked,
    Cancelled,
}

// ---------------------------------------------------------------------------------------------
// PRNG (splitmix64): small, fast, and good enough for scheduling decisions

#[derive(Clone, Debug)]
pub struct Rng(pub u64);
impl Rng {
    pub fn new(seed: u64) -> Self {
        Rng(seed)
    }
    #[inline]
    pub fn next(&mut self) -> u64 {
        self.0 = self.0.wrapping_add(0x9E37_79B9_7F4A_7C15);
        let mut z = self.0;
        z = (z ^ (z >> 30)).wrapping_mul(0xBF58_476D_1CE4_E5B9);
        z = (z ^ (z >> 27)).wrapping_mul(0x94D0_49BB_1331_11EB);
        z ^ (z >> 31)
    }
    #[inline]
    pub fn below(&mut self, n: u64) -> u64 {
        if n == 0 {
            0
        } else {
            self.next() % n
        }
    }
    #[inline]
    pub fn chance(&mut self, num: u64, den: u64) -> bool {
        self.below(den) < num
    }
    pub fn fork(&mut self, salt: u64) -> Rng {
        Rng(mix(self.next(), salt))
    }
}
pub fn mix(a: u64, b: u64) -> u64 {
    let mut r = Rng(a ^ b.rotate_left(32) ^ 0xD6E8_FEB8_6659_FD93);
    r.next()
}

#[derive(Clone, Copy, Debug, PartialEq, Eq)]
pub enum Stream {
    Sched = 0,
    Select = 1,
    Buggify = 2,
    User = 3,
}

// ---------------------------------------------------------------------------------------------
// configuration

#[derive(Clone, Debug, PartialEq, Eq)]
pub enum Policy {
    /// uniform over the runnable set
    Uniform,
    /// PCT: random priorities, `d` priority-change points within the first `horizon` steps
    Pct { d: u32, horizon: u32 },
    /// prefer tasks that are *not* of this kind, 9:1
    Starve(TaskKind),
    /// keep running the same task while it stays runnable (geometric burst, p = 3/4)
    Bursty,
    /// always the lowest task id (a canonical schedule, used as replay fallback)
    LowestId,
    /// always the highest task id
    HighestId,
}

#[derive(Clone, Debug, PartialEq, Eq)]
pub enum Clock {
    Ideal,
    /// probability (per mille, per step) of jumping to the next deadline although tasks are runnable
    Racing(u32),
}

#[derive(Clone, Debug, PartialEq, Eq)]
pub enum CancelWhen {
    /// instead of the j-th poll (1-based) of the task
    BeforePoll(u32),
    /// when the global step counter reaches this value (the task is parked or runnable, whatever)
    AtStep(u64),
}

#[derive(Clone, Debug, PartialEq, Eq)]
pub struct CancelFault {
    pub task: TaskId,
    pub when: CancelWhen,
}

#[derive(Clone, Debug)]
pub struct Config {
    pub seed: u64,
    pub policy: Policy,
    pub clock: Clock,
    /// after this many steps the policy falls back to `Uniform` (probabilistically fair)
    pub fair_after: u64,
    /// per mille probability per step of polling a live task that was not woken
    pub spurious_per_mille: u32,
    /// explicit decision list; when present it overrides `policy` until exhausted or diverged
    pub replay: Option<Vec<u32>>,
}
impl Default for Config {
    fn default() -> Self {
        Config {
            seed: 0,
            policy: Policy::Uniform,
            clock: Clock::Ideal,
            fair_after: u64::MAX,
            spurious_per_mille: 0,
            replay: None,
        }
    }
}

// ---------------------------------------------------------------------------------------------
// events & stamps

#[derive(Clone, Copy, Debug, PartialEq, Eq)]
pub struct Stamp {
    pub seq: u64,
    pub step: u64,
    pub vtime: u64,
    pub task: TaskId,
}

#[derive(Clone, Debug, PartialEq, Eq)]
pub enum TaskEvKind {
    Spawned { id: TaskId, kind: TaskKind, parent: TaskId },
    Done { id: TaskId, kind: TaskKind, how: DoneHow },
    /// cancellation requested (handle dropped on a cancel-on-drop runtime, or injected fault)
    CancelRequested { id: TaskId, injected: bool },
}
#[derive(Clone, Debug, PartialEq, Eq)]
pub struct TaskEv {
    pub stamp: Stamp,
    pub kind: TaskEvKind,
}

#[derive(Clone, Debug, Default)]
pub struct Stats {
    pub steps: u64,
    pub polls: u64,
    pub forced_clock_jumps: u64,
    pub racing_clock_jumps: u64,
    pub timers_fired: u64,
    pub timers_fired_while_runnable: u64,
    pub select_draws: u64,
    pub spurious_polls: u64,
    pub cancels_injected: u64,
    pub cancels_by_drop: u64,
    pub panics_caught: u64,
    pub replay_diverged: bool,
    pub max_runnable: usize,
    pub tasks_spawned: u64,
}

// ---------------------------------------------------------------------------------------------
// the simulator state

type BoxFut = Pin<Box<dyn Future<Output = ()>>>;

struct Task {
    fut: Option<BoxFut>,
    kind: TaskKind,
    done: bool,
    cancel_requested: bool,
    on_done: Option<Box<dyn FnOnce(DoneHow)>>,
    prio: u64,
    polls: u32,
}

struct Sim {
    generation: u64,
    tasks: Vec<Task>,
    runnable: Arc<Mutex<BTreeSet<TaskId>>>,
    timers: BTreeMap<(u64, u64), Waker>,
    timer_seq: u64,
    now: u64,
    seq: u64,
    step: u64,
    current: TaskId,
    rngs: [Rng; 4],
    cfg: Config,
    decisions: Vec<u32>,
    replay_pos: usize,
    task_events: Vec<TaskEv>,
    hash: u64,
    stats: Stats,
    last_task: Option<TaskId>,
    pct_points: Vec<u64>,
    pct_next_low: u64,
    cancel: Vec<CancelFault>,
}

pub const NO_TASK: TaskId = u32::MAX - 2;

thread_local! {
    static SIM: RefCell<Option<Sim>> = const { RefCell::new(None) };
    static GENERATION: std::cell::Cell<u64> = const { std::cell::Cell::new(0) };
}

fn with<R>(f: impl FnOnce(&mut Sim) -> R) -> R {
    SIM.with(|s| {
        let mut b = s.borrow_mut();
        let sim = b.as_mut().expect("simrt: no simulation active on this thread");
        f(sim)
    })
}

pub fn active() -> bool {
    SIM.with(|s| s.try_borrow().map(|b| b.is_some()).unwrap_or(true))
}

struct TaskWaker {
    id: TaskId,
    set: Arc<Mutex<BTreeSet<TaskId>>>,
}
impl Wake for TaskWaker {
    fn wake(self: Arc<Self>) {
        self.wake_by_ref()
    }
    fn wake_by_ref(self: &Arc<Self>) {
        self.set.lock().unwrap().insert(self.id);
    }
}

#[inline]
fn fnv(h: u64, v: u64) -> u64 {
    let mut h = h;
    for i in 0..8 {
        h ^= (v >> (i * 8)) & 0xff;
        h = h.wrapping_mul(0x0000_0100_0000_01B3);
    }
    h
}

impl Sim {
    fn new(cfg: Config, generation: u64) -> Sim {
        let mut root = Rng::new(mix(cfg.seed, 0x5151_5151));
        let rngs = [root.fork(1), root.fork(2), root.fork(3), root.fork(4)];
        let mut sim = Sim {
            generation,
            tasks: Vec::new(),
            runnable: Arc::new(Mutex::new(BTreeSet::new())),
            timers: BTreeMap::new(),
            timer_seq: 0,
            now: 0,
            seq: 0,
            step: 0,
            current: NO_TASK,
            rngs,
            cfg,
            decisions: Vec::new(),
            replay_pos: 0,
            task_events: Vec::new(),
            hash: 0xcbf2_9ce4_8422_2325,
            stats: Stats::default(),
            last_task: None,
            pct_points: Vec::new(),
            pct_next_low: 0,
            cancel: Vec::new(),
        };
        if let Policy::Pct { d, horizon } = sim.cfg.policy {
            for _ in 0..d {
                let p = sim.rngs[Stream::Sched as usize].below(horizon.max(1) as u64);
                sim.pct_points.push(p);
            }
            sim.pct_points.sort();
            sim.pct_next_low = d as u64;
        }
        sim
    }

    fn stamp(&mut self) -> Stamp {
        let s = Stamp {
            seq: self.seq,
            step: self.step,
            vtime: self.now,
            task: self.current,
        };
        self.seq += 1;
        s
    }

    fn task_event(&mut self, kind: TaskEvKind) {
        let stamp = self.stamp();
        let code = match &kind {
            TaskEvKind::Spawned { id, kind, parent } => {
                1u64 | (*id as u64) << 8 | (*kind as u64) << 40 | (*parent as u64) << 44
            }
            TaskEvKind::Done { id, how, .. } => 2u64 | (*id as u64) << 8 | (*how as u64) << 40,
            TaskEvKind::CancelRequested { id, injected } => {
                3u64 | (*id as u64) << 8 | (*injected as u64) << 40
            }
        };
        self.hash = fnv(self.hash, code);
        self.task_events.push(TaskEv { stamp, kind });
    }

    fn fire_due_timers(&mut self) {
        let runnable_before = !self.runnable.lock().unwrap().is_empty();
        loop {
            let Some((&(deadline, s), _)) = self.timers.iter().next() else {
                break;
            };
            if deadline > self.now {
                break;
            }
            let w = self.timers.remove(&(deadline, s)).unwrap();
            self.stats.timers_fired += 1;
            if runnable_before {
                self.stats.timers_fired_while_runnable += 1;
            }
            w.wake();
        }
    }

    fn jump_clock(&mut self) -> bool {
        let Some((&(deadline, _), _)) = self.timers.iter().next() else {
            return false;
        };
        if deadline > self.now {
            self.now = deadline;
        }
        self.fire_due_timers();
        true
    }

    /// remove finished tasks from the runnable set and return its content
    fn runnable_ids(&mut self) -> Vec<TaskId> {
        let mut set = self.runnable.lock().unwrap();
        let tasks = &self.tasks;
        set.retain(|id| tasks.get(*id as usize).is_some_and(|t| !t.done));
        set.iter().copied().collect()
    }

    fn choose(&mut self, ids: &[TaskId]) -> TaskId {
        debug_assert!(!ids.is_empty());
        // explicit replay first
        if let Some(list) = &self.cfg.replay {
            while self.replay_pos < list.len() {
                let d = list[self.replay_pos];
                self.replay_pos += 1;
                if d == CLOCK_JUMP || d == SPURIOUS {
                    // handled by the caller (see step); should not be seen here
                    continue;
                }
                if ids.contains(&d) {
                    return d;
                }
                self.stats.replay_diverged = true;
                break;
            }
            return ids[0];
        }
        let policy = if self.step >= self.cfg.fair_after {
            Policy::Uniform
        } else {
            self.cfg.policy.clone()
        };
        let rng = &mut self.rngs[Stream::Sched as usize];
        match policy {
            Policy::Uniform => ids[rng.below(ids.len() as u64) as usize],
            Policy::LowestId => ids[0],
            Policy::HighestId => ids[ids.len() - 1],
            Policy::Bursty => {
                if let Some(l) = self.last_task {
                    if ids.contains(&l) && rng.chance(3, 4) {
                        return l;
                    }
                }
                ids[rng.below(ids.len() as u64) as usize]
            }
            Policy::Starve(kind) => {
                let others: Vec<TaskId> = ids
                    .iter()
                    .copied()
                    .filter(|i| self.tasks[*i as usize].kind != kind)
                    .collect();
                if !others.is_empty() && others.len() < ids.len() && rng.chance(9, 10) {
                    others[rng.below(others.len() as u64) as usize]
                } else {
                    ids[rng.below(ids.len() as u64) as usize]
                }
            }
            Policy::Pct { .. } => {
                let best = |tasks: &Vec<Task>| {
                    *ids.iter()
                        .max_by_key(|i| (tasks[**i as usize].prio, u32::MAX - **i))
                        .unwrap()
                };
                let mut t = best(&self.tasks);
                while self.pct_points.first().is_some_and(|p| *p <= self.step) {
                    self.pct_points.remove(0);
                    self.pct_next_low = self.pct_next_low.saturating_sub(1);
                    self.tasks[t as usize].prio = self.pct_next_low;
                    t = best(&self.tasks);
                }
                t
            }
        }
    }
}

// ---------------------------------------------------------------------------------------------
// public API: lifecycle of a simulation

/// Run `f` with a fresh simulation installed on this thread; afterwards every remaining task
/// is dropped (outside any borrow) and the simulation is removed.
pub fn run<R>(cfg: Config, f: impl FnOnce() -> R) -> R {
    let generation = GENERATION.with(|g| {
        g.set(g.get() + 1);
        g.get()
    });
    SIM.with(|s| {
        let mut b = s.borrow_mut();
        assert!(b.is_none(), "simrt: nested simulation");
        *b = Some(Sim::new(cfg, generation));
    });
    // tear down (also when `f` unwinds): drop futures one by one without holding the borrow
    struct Teardown;
    impl Drop for Teardown {
        fn drop(&mut self) {
            loop {
                let fut = SIM.try_with(|s| {
                    let mut b = s.borrow_mut();
                    let sim = b.as_mut()?;
                    for t in sim.tasks.iter_mut() {
                        if t.fut.is_some() {
                            t.done = true;
                            return Some((t.fut.take(), t.on_done.take()));
                        }
                    }
                    None
                });
                match fut {
                    Ok(Some((f, cb))) => {
                        let _ = std::panic::catch_unwind(AssertUnwindSafe(move || {
                            drop(f);
                            drop(cb);
                        }));
                    }
                    _ => break,
                }
            }
            let sim = SIM.try_with(|s| s.borrow_mut().take());
            drop(sim);
        }
    }
    let _teardown = Teardown;
    f()
}

pub fn generation() -> u64 {
    with(|s| s.generation)
}

/// Low level spawn. `on_done` is called (outside of any internal borrow) when the task ends.
pub fn spawn_raw(
    kind: TaskKind,
    fut: BoxFut,
    on_done: Option<Box<dyn FnOnce(DoneHow)>>,
) -> TaskId {
    with(|sim| {
        let id = sim.tasks.len() as TaskId;
        let prio = 1_000 + (sim.rngs[Stream::Sched as usize].next() >> 1);
        sim.tasks.push(Task {
            fut: Some(fut),
            kind,
            done: false,
            cancel_requested: false,
            on_done,
            prio,
            polls: 0,
        });
        sim.stats.tasks_spawned += 1;
        let parent = sim.current;
        sim.task_event(TaskEvKind::Spawned { id, kind, parent });
        sim.runnable.lock().unwrap().insert(id);
        id
    })
}

struct JoinState<T> {
    out: Option<Result<T, DoneHow>>,
    waker: Option<Waker>,
    finished: bool,
}

/// Join handle without any drop semantics of its own; the runtime stubs wrap it.
pub struct RawJoin<T> {
    pub task: TaskId,
    st: Arc<Mutex<JoinState<T>>>,
}

impl<T> RawJoin<T> {
    pub fn poll_join(&mut self, cx: &mut Context<'_>) -> Poll<Result<T, DoneHow>> {
        let mut st = self.st.lock().unwrap();
        if let Some(r) = st.out.take() {
            return Poll::Ready(r);
        }
        if st.finished {
            panic!("simrt: join handle polled after completion");
        }
        st.waker = Some(cx.waker().clone());
        Poll::Pending
    }
    pub fn is_finished(&self) -> bool {
        self.st.lock().unwrap().finished
    }
}

struct Wrapper<F: Future> {
    fut: Option<Pin<Box<F>>>,
    st: Arc<Mutex<JoinState<F::Output>>>,
}
impl<F: Future> Future for Wrapper<F> {
    type Output = ();
    fn poll(self: Pin<&mut Self>, cx: &mut Context<'_>) -> Poll<()> {
        // Wrapper is Unpin: both fields are.
        let this = self.get_mut();
        let Some(f) = this.fut.as_mut() else {
            return Poll::Ready(());
        };
        match f.as_mut().poll(cx) {
            Poll::Pending => Poll::Pending,
            Poll::Ready(v) => {
                // tokio order: the future is dropped first, then the output is published
                this.fut = None;
                let w = {
                    let mut st = this.st.lock().unwrap();
                    st.out = Some(Ok(v));
                    st.finished = true;
                    st.waker.take()
                };
                if let Some(w) = w {
                    w.wake();
                }
                Poll::Ready(())
            }
        }
    }
}

pub fn spawn<F>(kind: TaskKind, fut: F) -> RawJoin<F::Output>
where
    F: Future + 'static,
    F::Output: 'static,
{
    let st = Arc::new(Mutex::new(JoinState {
        out: None,
        waker: None,
        finished: false,
    }));
    let st2 = st.clone();
    let w = Wrapper {
        fut: Some(Box::pin(fut)),
        st: st.clone(),
    };
    let task = spawn_raw(
        kind,
        Box::pin(w),
        Some(Box::new(move |how| {
            if how != DoneHow::Completed {
                let w = {
                    let mut s = st2.lock().unwrap();
                    if !s.finished {
                        s.out = Some(Err(how));
                        s.finished = true;
                    }
                    s.waker.take()
                };
                if let Some(w) = w {
                    w.wake();
                }
            }
        })),
    );
    RawJoin { task, st }
}

/// Request cancellation: the future is dropped at the task's next scheduling point and is never
/// polled again (async-task / tokio abort semantics).
pub fn cancel(task: TaskId) {
    cancel_inner(task, false)
}
fn cancel_inner(task: TaskId, injected: bool) {
    // may be called from inside a drop during teardown (even of the thread-local itself)
    let ok = SIM.try_with(|s| match s.try_borrow_mut() {
        Ok(mut b) => {
            if let Some(sim) = b.as_mut() {
                if let Some(t) = sim.tasks.get_mut(task as usize) {
                    if !t.done && !t.cancel_requested {
                        t.cancel_requested = true;
                        if injected {
                            sim.stats.cancels_injected += 1;
                        } else {
                            sim.stats.cancels_by_drop += 1;
                        }
                        sim.task_event(TaskEvKind::CancelRequested { id: task, injected });
                        sim.runnable.lock().unwrap().insert(task);
                    }
                }
            }
            true
        }
        Err(_) => false,
    })
    .unwrap_or(true);
    assert!(ok, "simrt: cancel called while the simulator is borrowed");
}

#[derive(Clone, Copy, Debug, PartialEq, Eq)]
pub enum Step {
    Progress,
    /// nothing runnable and no timer pending
    Quiescent,
}

/// Execute one step: maybe move the clock, choose a task, poll it (or drop it if cancelled).
pub fn step() -> Step {
    enum Act {
        Quiescent,
        Poll(TaskId, BoxFut, Waker),
        Drop(TaskId, Option<BoxFut>, bool),
    }
    let act = with(|sim| {
        // due step-based cancellation faults
        let step_now = sim.step;
        let due: Vec<u32> = sim
            .cancel
            .iter()
            .filter(|c| matches!(c.when, CancelWhen::AtStep(s) if s <= step_now))
            .map(|c| c.task)
            .collect();
        sim.cancel.retain(|c| !matches!(c.when, CancelWhen::AtStep(s) if s <= step_now));
        for id in due {
            let id = id as usize;
            if id < sim.tasks.len() {
                let t = &mut sim.tasks[id];
                if !t.done && !t.cancel_requested {
                    t.cancel_requested = true;
                    sim.stats.cancels_injected += 1;
                    sim.task_event(TaskEvKind::CancelRequested {
                        id: id as TaskId,
                        injected: true,
                    });
                    sim.runnable.lock().unwrap().insert(id as TaskId);
                }
            }
        }

        let replaying = sim
            .cfg
            .replay
            .as_ref()
            .is_some_and(|l| sim.replay_pos < l.len());
        // racing clock
        if !sim.timers.is_empty() {
            let jump = if replaying {
                let l = sim.cfg.replay.as_ref().unwrap();
                if l[sim.replay_pos] == CLOCK_JUMP {
                    sim.replay_pos += 1;
                    true
                } else {
                    false
                }
            } else if sim.cfg.replay.is_some() {
                false
            } else if let Clock::Racing(p) = sim.cfg.clock {
                let nonempty = !sim.runnable.lock().unwrap().is_empty();
                nonempty && sim.rngs[Stream::Sched as usize].chance(p as u64, 1000)
            } else {
                false
            };
            if jump {
                sim.stats.racing_clock_jumps += 1;
                sim.decisions.push(CLOCK_JUMP);
                sim.hash = fnv(sim.hash, CLOCK_JUMP as u64);
                sim.jump_clock();
            }
        }
        let mut ids = sim.runnable_ids();
        while ids.is_empty() {
            if !sim.jump_clock() {
                return Act::Quiescent;
            }
            sim.stats.forced_clock_jumps += 1;
            ids = sim.runnable_ids();
        }
        sim.stats.max_runnable = sim.stats.max_runnable.max(ids.len());

        // spurious poll (buggify): poll a live task nobody woke
        let mut chosen: Option<TaskId> = None;
        let replaying = replaying && sim.cfg.replay.as_ref().is_some_and(|l| sim.replay_pos < l.len());
        if replaying {
            let l = sim.cfg.replay.as_ref().unwrap();
            if l[sim.replay_pos] == SPURIOUS && sim.replay_pos + 1 < l.len() {
                let t = l[sim.replay_pos + 1];
                sim.replay_pos += 2;
                if sim.tasks.get(t as usize).is_some_and(|x| !x.done && x.fut.is_some()) {
                    chosen = Some(t);
                    sim.decisions.push(SPURIOUS);
                    sim.stats.spurious_polls += 1;
                } else {
                    sim.stats.replay_diverged = true;
                }
            }
        } else if sim.cfg.replay.is_none()
            && sim.cfg.spurious_per_mille > 0
            && sim.rngs[Stream::Buggify as usize].chance(sim.cfg.spurious_per_mille as u64, 1000)
        {
            let live: Vec<TaskId> = sim
                .tasks
                .iter()
                .enumerate()
                .filter(|(i, t)| {
                    !t.done
                        && t.fut.is_some()
                        && !t.cancel_requested
                        && t.polls > 0
                        && !ids.contains(&(*i as TaskId))
                })
                .map(|(i, _)| i as TaskId)
                .collect();
            if !live.is_empty() {
                let t = live[sim.rngs[Stream::Buggify as usize].below(live.len() as u64) as usize];
                chosen = Some(t);
                sim.decisions.push(SPURIOUS);
                sim.stats.spurious_polls += 1;
            }
        }
        let id = match chosen {
            Some(t) => t,
            None => sim.choose(&ids),
        };
        sim.decisions.push(id);
        sim.hash = fnv(sim.hash, id as u64);
        sim.last_task = Some(id);
        sim.runnable.lock().unwrap().remove(&id);
        sim.step += 1;
        sim.stats.steps += 1;
        sim.current = id;
        let set = sim.runnable.clone();
        let t = &mut sim.tasks[id as usize];
        // cancellation fault "before the j-th poll"
        let mut injected = false;
        if !t.cancel_requested {
            let next_poll = t.polls + 1;
            if sim
                .cancel
                .iter()
                .any(|c| c.task == id && c.when == CancelWhen::BeforePoll(next_poll))
            {
                t.cancel_requested = true;
                injected = true;
            }
        }
        if t.cancel_requested {
            t.done = true;
            let f = t.fut.take();
            if injected {
                sim.stats.cancels_injected += 1;
                sim.task_event(TaskEvKind::CancelRequested { id, injected: true });
            }
            return Act::Drop(id, f, injected);
        }
        t.polls += 1;
        sim.stats.polls += 1;
        let fut = t.fut.take().expect("simrt: runnable task without future");
        let waker = Waker::from(Arc::new(TaskWaker { id, set }));
        Act::Poll(id, fut, waker)
    });

    match act {
        Act::Quiescent => Step::Quiescent,
        Act::Drop(id, fut, _injected) => {
            drop(fut);
            finish(id, DoneHow::Cancelled);
            with(|sim| sim.current = NO_TASK);
            Step::Progress
        }
        Act::Poll(id, mut fut, waker) => {
            let mut cx = Context::from_waker(&waker);
            let res = std::panic::catch_unwind(AssertUnwindSafe(|| fut.as_mut().poll(&mut cx)));
            match res {
                Ok(Poll::Pending) => {
                    with(|sim| {
                        sim.tasks[id as usize].fut = Some(fut);
                    });
                }
                Ok(Poll::Ready(())) => {
                    with(|sim| sim.tasks[id as usize].done = true);
                    drop(fut);
                    finish(id, DoneHow::Completed);
                }
                Err(_payload) => {
                    with(|sim| {
                        sim.tasks[id as usize].done = true;
                        sim.stats.panics_caught += 1;
                    });
                    drop(fut);
                    finish(id, DoneHow::Panicked);
                }
            }
            with(|sim| sim.current = NO_TASK);
            Step::Progress
        }
    }
}

fn finish(id: TaskId, how: DoneHow) {
    let cb = with(|sim| {
        let kind = sim.tasks[id as usize].kind;
        sim.task_event(TaskEvKind::Done { id, kind, how });
        sim.tasks[id as usize].on_done.take()
    });
    if let Some(cb) = cb {
        cb(how);
    }
}

// ---------------------------------------------------------------------------------------------
// observation

pub fn now() -> u64 {
    with(|s| s.now)
}
pub fn steps() -> u64 {
    with(|s| s.step)
}
pub fn current_task() -> TaskId {
    with(|s| s.current)
}
/// A fresh stamp; consumes one global sequence number.
pub fn stamp() -> Stamp {
    with(|s| s.stamp())
}
/// Fold a value into the trace hash (the harness calls this for every event it logs).
pub fn hash_in(v: u64) {
    with(|s| s.hash = fnv(s.hash, v))
}
pub fn trace_hash() -> u64 {
    with(|s| s.hash)
}
pub fn rand(stream: Stream) -> u64 {
    with(|s| s.rngs[stream as usize].next())
}
/// Tie-break source for the patched `futures_util::async_await::random`.
pub fn select_random() -> Option<u64> {
    SIM.with(|s| match s.try_borrow_mut() {
        Ok(mut b) => b.as_mut().map(|sim| {
            sim.stats.select_draws += 1;
            let v = sim.rngs[Stream::Select as usize].next();
            sim.hash = fnv(sim.hash, v | 1 << 63);
            v
        }),
        Err(_) => None,
    })
}
/// The virtual clock for code outside the stubs that reads a clock (async-lock's anti-starvation
/// rule); `None` when no simulation is active on this thread. Draws nothing.
pub fn now_if_active() -> Option<u64> {
    SIM.with(|s| match s.try_borrow() {
        Ok(b) => b.as_ref().map(|sim| sim.now),
        Err(_) => None,
    })
}
pub fn decisions() -> Vec<u32> {
    with(|s| s.decisions.clone())
}
pub fn task_events() -> Vec<TaskEv> {
    with(|s| s.task_events.clone())
}
pub fn stats() -> Stats {
    with(|s| s.stats.clone())
}
pub fn pending_timers() -> usize {
    with(|s| s.timers.len())
}
pub fn next_deadline() -> Option<u64> {
    with(|s| s.timers.keys().next().map(|k| k.0))
}
pub fn runnable_count() -> usize {
    with(|s| s.runnable_ids().len())
}
#[derive(Clone, Debug, PartialEq, Eq)]
pub struct TaskInfo {
    pub id: TaskId,
    pub kind: TaskKind,
    pub polls: u32,
    pub done: bool,
}
pub fn tasks() -> Vec<TaskInfo> {
    with(|s| {
        s.tasks
            .iter()
            .enumerate()
            .map(|(i, t)| TaskInfo {
                id: i as TaskId,
                kind: t.kind,
                polls: t.polls,
                done: t.done,
            })
            .collect()
    })
}
pub fn task_done(id: TaskId) -> bool {
    with(|s| s.tasks.get(id as usize).map(|t| t.done).unwrap_or(true))
}
/// Switch the scheduling policy from now on (used to fall back to a fair policy).
pub fn set_policy(p: Policy) {
    with(|s| s.cfg.policy = p)
}
pub fn set_clock(c: Clock) {
    with(|s| s.cfg.clock = c)
}

// ---------------------------------------------------------------------------------------------
// virtual time

/// Sleep on the virtual clock. The deadline is fixed at creation (like tokio, async-io and
/// futures-timer, which all compute `Instant::now() + d` in the constructor).
pub struct Sleep {
    deadline: u64,
    key: Option<(u64, u64)>,
    generation: u64,
}

pub fn sleep_ns(ns: u64) -> Sleep {
    let (now, generation) = with(|s| (s.now, s.generation));
    Sleep {
        deadline: now.saturating_add(ns),
        key: None,
        generation,
    }
}
pub fn sleep(d: std::time::Duration) -> Sleep {
    sleep_ns(d.as_nanos().min(u64::MAX as u128) as u64)
}

impl Sleep {
    pub fn deadline(&self) -> u64 {
        self.deadline
    }
}

impl Future for Sleep {
    type Output = ();
    fn poll(self: Pin<&mut Self>, cx: &mut Context<'_>) -> Poll<()> {
        let this = self.get_mut();
        with(|sim| {
            assert_eq!(sim.generation, this.generation, "simrt: Sleep outlived its simulation");
            if sim.now >= this.deadline {
                if let Some(k) = this.key.take() {
                    sim.timers.remove(&k);
                }
                Poll::Ready(())
            } else {
                match this.key {
                    Some(k) => {
                        if let Some(w) = sim.timers.get_mut(&k) {
                            if !w.will_wake(cx.waker()) {
                                *w = cx.waker().clone();
                            }
                        } else {
                            // fired already but polled before the deadline?  cannot happen:
                            // entries are only removed when due.  Re-register defensively.
                            sim.timers.insert(k, cx.waker().clone());
                        }
                    }
                    None => {
                        let k = (this.deadline, sim.timer_seq);
                        sim.timer_seq += 1;
                        sim.timers.insert(k, cx.waker().clone());
                        this.key = Some(k);
                    }
                }
                Poll::Pending
            }
        })
    }
}

impl Drop for Sleep {
    fn drop(&mut self) {
        if let Some(k) = self.key.take() {
            let _ = SIM.try_with(|s| {
                if let Ok(mut b) = s.try_borrow_mut() {
                    if let Some(sim) = b.as_mut() {
                        if sim.generation == self.generation {
                            sim.timers.remove(&k);
                        }
                    }
                }
            });
        }
    }
}

/// Yield once: wake self and return `Pending`.
pub struct YieldNow(bool);
pub fn yield_now() -> YieldNow {
    YieldNow(false)
}
impl Future for YieldNow {
    type Output = ();
    fn poll(mut self: Pin<&mut Self>, cx: &mut Context<'_>) -> Poll<()> {
        if self.0 {
            Poll::Ready(())
        } else {
            self.0 = true;
            cx.waker().wake_by_ref();
            Poll::Pending
        }
    }
}

/// Id of the most recently spawned task (the runtime stubs spawn synchronously, so right after a
/// spawn entry point returned this is the actor's loop task).
pub fn last_spawned() -> TaskId {
    with(|s| s.tasks.len().saturating_sub(1) as TaskId)
}
pub fn task_kind(id: TaskId) -> Option<TaskKind> {
    with(|s| s.tasks.get(id as usize).map(|t| t.kind))
}

/// Fault injection: cancel `task` (drop its future, report `Cancelled` to its joiner) either
/// instead of its j-th poll or when the global step counter reaches a value.
pub fn add_cancel_for_task(task: TaskId, when: CancelWhen) {
    with(|s| s.cancel.push(CancelFault { task, when }))
}
