//! The same probes are run by `hsim calib` on the stubs; outcomes are timing independent
//! (positives wait on a channel with a generous timeout, smol cancels synchronously on drop).
use std::sync::atomic::{AtomicBool, Ordering};
use std::sync::Arc;
use std::time::Duration;

fn main() {
    let mut out: Vec<(String, String)> = vec![];
    // ---------------- tokio
    {
        let rt = tokio::runtime::Builder::new_multi_thread().worker_threads(2).enable_all().build().unwrap();
        rt.block_on(async {
            let ran = Arc::new(AtomicBool::new(false));
            let r2 = ran.clone();
            let h = tokio::spawn(async move {
                tokio::task::yield_now().await;
                tokio::time::sleep(Duration::from_millis(5)).await;
                r2.store(true, Ordering::SeqCst);
            });
            drop(h);
            tokio::time::sleep(Duration::from_millis(200)).await;
            out.push(("tokio.drop_handle_task_still_runs".into(), ran.load(Ordering::SeqCst).to_string()));
            let h = tokio::spawn(async { 41 + 1 });
            tokio::time::sleep(Duration::from_millis(20)).await;
            out.push(("tokio.join_finished".into(), format!("{:?}", h.await.ok())));
            let h = tokio::spawn(async {
                tokio::time::sleep(Duration::from_secs(3600)).await;
                1
            });
            h.abort();
            let r = h.await;
            out.push(("tokio.join_aborted_is_err_cancelled".into(), r.as_ref().err().map(|e| e.is_cancelled()).unwrap_or(false).to_string()));
            let order = Arc::new(std::sync::Mutex::new(vec![]));
            let (o1, o2) = (order.clone(), order.clone());
            let a = tokio::spawn(async move {
                tokio::time::sleep(Duration::from_millis(60)).await;
                o1.lock().unwrap().push(60)
            });
            let b = tokio::spawn(async move {
                tokio::time::sleep(Duration::from_millis(20)).await;
                o2.lock().unwrap().push(20)
            });
            let _ = (a.await, b.await);
            out.push(("tokio.sleep_order".into(), format!("{:?}", order.lock().unwrap())));
        });
    }
    // ---------------- async-std
    async_std::task::block_on(async {
        let ran = Arc::new(AtomicBool::new(false));
        let r2 = ran.clone();
        let h = async_std::task::spawn(async move {
            async_std::task::sleep(Duration::from_millis(5)).await;
            r2.store(true, Ordering::SeqCst);
        });
        drop(h);
        async_std::task::sleep(Duration::from_millis(200)).await;
        out.push(("asyncstd.drop_handle_task_still_runs".into(), ran.load(Ordering::SeqCst).to_string()));
        let h = async_std::task::spawn(async { 41 + 1 });
        async_std::task::sleep(Duration::from_millis(20)).await;
        out.push(("asyncstd.join_finished".into(), format!("{:?}", Some(h.await))));
        let order = Arc::new(std::sync::Mutex::new(vec![]));
        let (o1, o2) = (order.clone(), order.clone());
        let a = async_std::task::spawn(async move {
            async_std::task::sleep(Duration::from_millis(60)).await;
            o1.lock().unwrap().push(60)
        });
        let b = async_std::task::spawn(async move {
            async_std::task::sleep(Duration::from_millis(20)).await;
            o2.lock().unwrap().push(20)
        });
        a.await;
        b.await;
        out.push(("asyncstd.sleep_order".into(), format!("{:?}", order.lock().unwrap())));
    });
    // ---------------- smol
    smol::block_on(async {
        let ran = Arc::new(AtomicBool::new(false));
        let r2 = ran.clone();
        let t = smol::spawn(async move {
            smol::Timer::after(Duration::from_millis(5)).await;
            r2.store(true, Ordering::SeqCst);
        });
        drop(t);
        smol::Timer::after(Duration::from_millis(200)).await;
        out.push(("smol.drop_handle_task_still_runs".into(), ran.load(Ordering::SeqCst).to_string()));
        let ran = Arc::new(AtomicBool::new(false));
        let r2 = ran.clone();
        smol::spawn(async move {
            smol::Timer::after(Duration::from_millis(5)).await;
            r2.store(true, Ordering::SeqCst);
        })
        .detach();
        smol::Timer::after(Duration::from_millis(200)).await;
        out.push(("smol.detached_task_still_runs".into(), ran.load(Ordering::SeqCst).to_string()));
        let t = smol::spawn(async { 41 + 1 });
        smol::Timer::after(Duration::from_millis(20)).await;
        out.push(("smol.join_finished".into(), format!("{:?}", Some(t.await))));
        let order = Arc::new(std::sync::Mutex::new(vec![]));
        let (o1, o2) = (order.clone(), order.clone());
        let a = smol::spawn(async move {
            smol::Timer::after(Duration::from_millis(60)).await;
            o1.lock().unwrap().push(60)
        });
        let b = smol::spawn(async move {
            smol::Timer::after(Duration::from_millis(20)).await;
            o2.lock().unwrap().push(20)
        });
        a.await;
        b.await;
        out.push(("smol.sleep_order".into(), format!("{:?}", order.lock().unwrap())));
    });
    for (k, v) in out {
        println!("{k}={v}");
    }
}
