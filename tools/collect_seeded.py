#!/usr/bin/env python3
"""Copy confirmed seeded mutants (sub-agent deliverables + campaign results) into /verif/seeded/<id>/."""
import json, os, shutil, glob
OUT = "/verif/seeded"
os.makedirs(OUT, exist_ok=True)
rows = []
for f in sorted(glob.glob("/tmp/campaign/*.json")):
    name = os.path.basename(f)[:-5]
    rec = json.load(open(f))
    wt = rec.get("worktree")
    x = name.split("-")[1][0]
    src = f"{wt}/mutants/{x}"
    if not os.path.exists(f"{src}/patch.diff"):
        continue
    conf = rec.get("confirm", {})
    if not conf.get("ok"):
        rows.append((name, "UNCONFIRMED", rec.get("caught_by")))
        continue
    d = f"{OUT}/{name}"
    os.makedirs(d, exist_ok=True)
    shutil.copy(f"{src}/patch.diff", f"{d}/patch.diff")
    shutil.copy(f"{src}/demo.rs", f"{d}/demo.rs")
    am = json.load(open(f"{src}/meta.json"))
    meta = {
        "id": name,
        "property_broken": name.split("-")[0],
        "summary": am.get("summary"),
        "needs_to_manifest": am.get("needs"),
        "author": "independent sub-agent given only the property text and a scratch worktree of /repo (nothing from /verif)",
        "author_verification": am.get("verified"),
        "confirmed_by_us": {
            "how": "scratch worktree outside /repo: git apply patch.diff; cargo test --offline --lib (existing suite); cargo test --offline --test demo (must fail); git checkout -- src; cargo test --offline --test demo (must pass)",
            "existing_suite_with_mutant": conf.get("suite_with_mutant"),
            "demo_exit_with_mutant": conf.get("demo_with_mutant_exit"),
            "demo_exit_without_mutant": conf.get("demo_without_mutant_exit"),
        },
        "checks_run": "every registered check, quick tier, against a scratch copy of /repo with the patch applied (tools/mutant_campaign.py / tools/try_mutant.py; VERIF_REPO=<copy>)",
        "caught_by": rec.get("caught_by"),
        "signatures": {p: r.get("signatures") for p, r in rec.get("checks", {}).items() if isinstance(r, dict) and r.get("exit") == 1},
        "harness_errors": rec.get("harness_errors"),
    }
    if rec.get("first_pass_caught_by") is not None and sorted(rec["first_pass_caught_by"]) != sorted(rec.get("caught_by") or []):
        meta["first_pass_caught_by"] = rec["first_pass_caught_by"]
        meta["note"] = "caught_by is the state after the checks were strengthened following the first pass (DESIGN.md 8.3)"
    json.dump(meta, open(f"{d}/meta.json", "w"), indent=1)
    rows.append((name, "confirmed", rec.get("caught_by")))
for r in rows:
    print(*r)
