#!/usr/bin/env python3
"""Re-run every check (quick tier) against scratch copies of /repo with each collected benign
refactoring (benign/<id>/patch.diff) applied. Expected: exit 0 everywhere.
usage: tools/benign_recheck.py [id ...]      results: /tmp/benign2/<id>.json; prints one line per patch"""
import glob, json, os, sys, time
HERE = os.path.dirname(os.path.abspath(__file__))
src = open(os.path.join(HERE, "mutant_campaign.py")).read().replace("\nmain()\n", "\n")
mc = {}
exec(compile(src, "mutant_campaign.py", "exec"), mc)
OUT = "/tmp/benign2"
os.makedirs(OUT, exist_ok=True)
mc["sync_vm"]()
ids = sys.argv[1:] or sorted(os.path.basename(os.path.dirname(p)) for p in glob.glob("/verif/benign/*/patch.diff"))
for i in ids:
    checks = mc["run_checks"](f"/verif/benign/{i}/patch.diff", mc["PROPS"])
    if "error" in checks:
        print(i, "SKIPPED", checks["error"][:120], flush=True)
        continue
    rec = {"checks": checks, "alarms": [p for p, r in checks.items() if isinstance(r, dict) and r.get("exit") == 1],
           "harness_errors": [p for p, r in checks.items() if isinstance(r, dict) and r.get("exit") == 2]}
    json.dump(rec, open(f"{OUT}/{i}.json", "w"), indent=1)
    print(i, "alarms", rec["alarms"], "errors", rec["harness_errors"], flush=True)
