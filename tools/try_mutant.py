#!/usr/bin/env python3
"""Run checks against a scratch copy of /repo with a patch applied (never touches /repo).
usage: tools/try_mutant.py <patch.diff> [PROP ...]      env: VERIF_RUNS (default: quick tier)"""
import os, shutil, subprocess, sys, tempfile, re
HERE = os.path.dirname(os.path.dirname(os.path.abspath(__file__)))
patch = os.path.abspath(sys.argv[1])
props = sys.argv[2:] or [f"C{i:02d}" for i in range(1, 19)]
d = tempfile.mkdtemp(prefix="mrepo-", dir="/tmp")
try:
    for x in ("src", "hannibal-derive"):
        shutil.copytree(os.path.join("/repo", x), os.path.join(d, x))
    for x in ("Cargo.toml", "Cargo.lock"):
        shutil.copy(os.path.join("/repo", x), d)
    r = subprocess.run(["patch", "-p1", "-s", "-i", patch], cwd=d)
    if r.returncode != 0:
        sys.exit("patch does not apply")
    env = dict(os.environ, VERIF_REPO=d)
    caught = []
    for p in props:
        r = subprocess.run([os.path.join(HERE, "check"), p, "quick"], env=env, stdout=subprocess.PIPE, stderr=subprocess.STDOUT, text=True)
        sigs = re.findall(r"^violated (\S+?):? ", r.stdout, re.M) + re.findall(r"^also violated \(not minimised\): (\S+) at", r.stdout, re.M)
        print(f"{p}: exit {r.returncode} {' '.join(sorted(set(sigs)))[:600]}")
        if r.returncode == 2:
            print(r.stdout[-1500:])
        if r.returncode == 1:
            caught.append(p)
    print("CAUGHT BY:", " ".join(caught) if caught else "nothing")
finally:
    shutil.rmtree(d, ignore_errors=True)
    # restore the shadow manifest / build for /repo
    subprocess.run([sys.executable, os.path.join(HERE, "tools", "gen_shadow.py"), "/repo"])
