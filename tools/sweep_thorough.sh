#!/bin/sh
# thorough-tier sweep (reduced run count per check) over several seeds
cd "$(dirname "$0")/.."
for seed in "$@"; do
  for p in C01 C02 C03 C04 C05 C06 C07 C08 C09 C10 C11 C12 C13 C14 C15 C16 C17 C18; do
    VERIF_SEED=$seed VERIF_RUNS=${RUNS:-400000} ./check $p thorough 2>&1 | tail -4 | cut -c1-400
  done
done
