/* LD_PRELOAD shim: getrandom() returns a fixed byte pattern, so that std's RandomState (HashMap
   iteration order) is the same in every process and every fresh thread.  Only the simulator
   processes are started with it. */
#define _GNU_SOURCE
#include <sys/types.h>
#include <stddef.h>
ssize_t getrandom(void *buf, size_t len, unsigned int flags) {
    (void)flags;
    unsigned char *p = (unsigned char *)buf;
    for (size_t i = 0; i < len; i++) p[i] = (unsigned char)(0x5a ^ (i * 37));
    return (ssize_t)len;
}
