#!/usr/bin/env python3
"""Markdown table of the seeded changes (seeded/*/meta.json): which checks catch which."""
import json, glob, os
rows = []
for f in sorted(glob.glob("/verif/seeded/*/meta.json")):
    m = json.load(open(f))
    own = m["property_broken"]
    caught = m.get("caught_by") or []
    summ = (m.get("summary") or "").replace("\n", " ").replace("|", "/")
    if len(summ) > 230:
        summ = summ[:227] + "..."
    rows.append((m["id"], own, "yes" if own in caught else "**no**", ", ".join(caught) if caught else "**none**", summ))
print("| seeded change | breaks | caught by own check | caught by (quick tier) | what it is |")
print("|---|---|---|---|---|")
for r in rows:
    print("| " + " | ".join(r) + " |")
print()
print(f"{len(rows)} seeded changes; {sum(1 for r in rows if r[3] != '**none**')} caught by at least one check; {sum(1 for r in rows if r[2] == 'yes')} caught by the check of the property they were written against.")
