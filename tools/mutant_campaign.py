#!/usr/bin/env python3
"""Confirm seeded mutants and run every check against them, from a private copy of /verif.
usage: tools/mutant_campaign.py <worktree> [<worktree> ...]   (each has mutants/{a,b}/{patch.diff,demo.rs,meta.json})
results: /tmp/campaign/<PROP>-<x>.json"""
import json, os, re, shutil, subprocess, sys, time

OUT = "/tmp/campaign"
VM = os.environ.get("CAMPAIGN_VM", "/tmp/vm")
os.makedirs(OUT, exist_ok=True)
ENV = dict(os.environ, CARGO_NET_OFFLINE="true")
PROPS = [f"C{i:02d}" for i in range(1, 19)]


def sh(cmd, cwd=None, env=None, timeout=3600):
    r = subprocess.run(cmd, cwd=cwd, env=env or ENV, stdout=subprocess.PIPE, stderr=subprocess.STDOUT, text=True, shell=isinstance(cmd, str), timeout=timeout)
    return r.returncode, r.stdout


def sync_vm():
    os.makedirs(VM, exist_ok=True)
    sh(f"rsync -a --delete --exclude target --exclude .git --exclude replays /verif/ {VM}/")
    os.makedirs(f"{VM}/replays", exist_ok=True)


def confirm(wt, x):
    """apply -> lib tests pass & demo fails ; revert -> demo passes"""
    d = f"{wt}/mutants/{x}"
    meta = json.load(open(f"{d}/meta.json"))
    feats = []
    txt = json.dumps(meta).lower()
    explicit = str(meta.get("feature_flags") or meta.get("runtime_feature") or "").lower()
    if explicit:
        txt = explicit
    if "smol_runtime" in txt:
        feats = ["--no-default-features", "--features", "smol_runtime"]
    elif "async_runtime" in txt:
        feats = ["--no-default-features", "--features", "async_runtime"]
    res = {}
    sh("git checkout -q -- src", cwd=wt)
    rc, out = sh(["git", "apply", f"mutants/{x}/patch.diff"], cwd=wt)
    if rc != 0:
        return {"ok": False, "why": "patch does not apply: " + out[-300:]}
    shutil.copy(f"{d}/demo.rs", f"{wt}/tests/demo_{x}.rs")
    try:
        # (the suite has wall-clock tests that can flake on a loaded machine: best of three)
        for _ in range(3):
            rc, out = sh(["cargo", "test", "--offline", "--lib"], cwd=wt)
            m = re.search(r"test result: (\w+)\. (\d+) passed; (\d+) failed", out)
            if m and m.group(1) == "ok":
                break
        res["suite_with_mutant"] = m.group(0) if m else out[-300:]
        suite_ok = bool(m and m.group(1) == "ok" and int(m.group(2)) >= 41)
        rc1, out1 = sh(["cargo", "test", "--offline", "--test", f"demo_{x}"] + feats, cwd=wt, timeout=1200)
        res["demo_with_mutant_exit"] = rc1
        sh("git checkout -q -- src", cwd=wt)
        rc2, out2 = sh(["cargo", "test", "--offline", "--test", f"demo_{x}"] + feats, cwd=wt, timeout=1200)
        res["demo_without_mutant_exit"] = rc2
        res["ok"] = suite_ok and rc1 != 0 and rc2 == 0
        if not res["ok"]:
            res["why"] = f"suite_ok={suite_ok} demo_with={rc1} demo_without={rc2}: {out1[-400:]} ||| {out2[-400:]}"
    finally:
        sh("git checkout -q -- src", cwd=wt)
        try:
            os.remove(f"{wt}/tests/demo_{x}.rs")
        except FileNotFoundError:
            pass
    return res


def run_checks(patch, props):
    # a fresh directory name per mutant: cargo's freshness check is mtime based, and files copied
    # back from /repo carry old mtimes - with a reused path it would keep parts of the previous
    # mutant's build
    import tempfile
    d = tempfile.mkdtemp(prefix="mrepo-campaign-" + os.path.basename(VM) + "-", dir="/tmp")
    for y in ("src", "hannibal-derive"):
        shutil.copytree(f"/repo/{y}", f"{d}/{y}")
    for y in ("Cargo.toml", "Cargo.lock"):
        shutil.copy(f"/repo/{y}", d)
    rc, out = sh(["patch", "-p1", "-s", "-i", patch], cwd=d)
    if rc != 0:
        return {"error": "patch does not apply to /repo copy: " + out[-300:]}
    env = dict(ENV, VERIF_REPO=d)
    res = {}
    for p in props:
        rc, out = sh([f"{VM}/check", p, "quick"], env=env)
        sigs = sorted(set(re.findall(r"^violated (\S+?):? ", out, re.M) + re.findall(r"^also violated \(not minimised\): (\S+) at", out, re.M)))
        res[p] = {"exit": rc, "signatures": sigs[:12]}
        if rc == 2:
            res[p]["tail"] = out[-600:]
    shutil.rmtree(d, ignore_errors=True)
    return res


def main():
    sync_vm()
    only_checks = os.environ.get("ONLY_CHECKS")
    for wt in sys.argv[1:]:
        for x in ("a", "b"):
            d = f"{wt}/mutants/{x}"
            if not os.path.exists(f"{d}/patch.diff"):
                continue
            meta = json.load(open(f"{d}/meta.json"))
            prop = meta.get("property", os.path.basename(wt)[-3:])
            prop = re.search(r"C\d\d", prop).group(0) if re.search(r"C\d\d", prop) else os.path.basename(wt)[-3:]
            name = f"{prop}-{x}" + ("2" if "/wt2-" in wt else "3" if "/wt3-" in wt else "4" if "/wt4-" in wt else "5" if "/wt5-" in wt else "6" if "/wt6-" in wt else "7" if "/wt7-" in wt else "8" if "/wt8-" in wt else "")
            outp = f"{OUT}/{name}.json"
            rec = json.load(open(outp)) if os.path.exists(outp) else {}
            t0 = time.time()
            if ("confirm" not in rec or not rec["confirm"].get("ok")) and not only_checks:
                rec["confirm"] = confirm(wt, x)
            rec["checks"] = run_checks(f"{d}/patch.diff", PROPS)
            rec["caught_by"] = [p for p, r in rec["checks"].items() if isinstance(r, dict) and r.get("exit") == 1]
            rec["harness_errors"] = [p for p, r in rec["checks"].items() if isinstance(r, dict) and r.get("exit") == 2]
            rec["wall_s"] = round(time.time() - t0)
            rec["worktree"] = wt
            rec["summary"] = meta.get("summary", "")[:500]
            json.dump(rec, open(outp, "w"), indent=1)
            print(name, "confirmed" if rec.get("confirm", {}).get("ok") else "UNCONFIRMED", "caught by", rec["caught_by"], "errors", rec["harness_errors"], flush=True)
    subprocess.run([sys.executable, f"{VM}/tools/gen_shadow.py", "/repo"])


main()
