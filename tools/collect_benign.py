#!/usr/bin/env python3
"""Copy the benign refactorings (sub-agent deliverables + campaign results) into /verif/benign/<id>/."""
import json, os, shutil, glob
OUT = "/verif/benign"
os.makedirs(OUT, exist_ok=True)
rows = []
for f in sorted(glob.glob("/tmp/benign/*.json")):
    name = os.path.basename(f)[:-5]            # wtb-<k>-r<i>
    k, r = name.split("-")[1], name.split("-")[2]
    src = f"/tmp/wtb-{k}/refactors/{r}"
    if not os.path.exists(f"{src}/patch.diff"):
        continue
    rec = json.load(open(f))
    am = json.load(open(f"{src}/meta.json"))
    d = f"{OUT}/B{k}-{r}"
    os.makedirs(d, exist_ok=True)
    shutil.copy(f"{src}/patch.diff", f"{d}/patch.diff")
    extra = {}
    if os.path.exists(f"{d}/meta.json"):
        extra = {k_: v for k_, v in json.load(open(f"{d}/meta.json")).items() if k_ in ("first_pass", "after_correction")}
    meta = {
        "id": f"B{k}-{r}",
        "summary": am.get("summary"),
        "why_benign": am.get("why_benign"),
        "observable_difference": am.get("observable_difference"),
        "author": "independent sub-agent given the texts of all properties (to preserve them) and a scratch worktree of /repo (nothing from /verif)",
        "author_verification": am.get("verified"),
        "checks_run": "every registered check, quick tier, against a scratch copy of /repo with the patch applied (tools/benign_campaign.py)",
        "alarms": rec.get("alarms"),
        "harness_errors": rec.get("harness_errors"),
        "detail": {p: r_ for p, r_ in rec.get("checks", {}).items() if isinstance(r_, dict) and r_.get("exit") != 0},
    }
    meta.update(extra)
    json.dump(meta, open(f"{d}/meta.json", "w"), indent=1)
    rows.append((meta["id"], meta["alarms"], meta["harness_errors"]))
for r in rows:
    print(*r)
