#!/usr/bin/env python3
"""Regenerate /verif/MANIFEST.json from the property table below and `properties.jsonl`."""
import json, os
HERE = os.path.dirname(os.path.dirname(os.path.abspath(__file__)))
props = [json.loads(l) for l in open(os.path.join(HERE, "properties.jsonl"))]

SIM = ("seeded deterministic simulation of the real /repo/src on simrt (single-threaded executor, virtual clock, "
       "scheduler policies uniform/PCT/starve/bursty, racing clock, spurious polls) with fault injection")
NOTE = ("trusted base: simrt (executor, clock, PRNG), the behavioural stubs of tokio/async-std/smol/futures-timer (spawn, "
        "join-handle drop semantics, sleep), the harness actors and the oracle of this property; atomicity granularity "
        "is one poll; a clean batch is evidence over the sampled schedules/programs/faults, not proof")

CHECKS = {
 "C01": ("exploration", "history check against a sequential model (FIFO queue feeding a fold): no overlap, at-most-once, real-time order across handle kinds and both submission paths, reply/join state = fold", "DESIGN.md#6 C01",
         "seeded simulation + per-actor history check vs FIFO/fold model"),
 "C02": ("exploration", "response integrity (id, nonce, invocation number, handler finished before reply) and 'every operation resolves' decided at simulator quiescence / under the fair fallback scheduler, for 13 termination causes placed at random positions", "DESIGN.md#6 C02",
         "seeded simulation + fault injection; quiescence = hang oracle"),
 "C03": ("exploration", "callback trace of every actor run matched against the per-incarnation protocol automaton started / handlers / [finished] / stopped, incl. restart and start-failure paths", "DESIGN.md#6 C03",
         "seeded simulation + protocol automaton over callback trace"),
 "C04": ("exploration", "real-time-order oracle around racing stop requests through all six entry points; awaiter return stamps compared with the end of stopped(); Ok iff graceful", "DESIGN.md#6 C04",
         "seeded simulation + real-time order oracle"),
 "C05": ("exploration", "strong-handle census replayed from the log vs actor liveness (no termination while held; drain then graceful stop after the last drop; weak handles, timers, subscriptions, registry sub-family), task census at quiescence", "DESIGN.md#6 C05",
         "seeded simulation + handle-census reference model"),
 "C07": ("exploration", "incarnation-tagged history: restart boundary vs messages accepted before / submitted after, strategy-specific identity rules, timer provenance on the virtual clock", "DESIGN.md#6 C07",
         "seeded simulation on virtual clock + incarnation-tagged history check"),
 "C10": ("exploration", "timer submissions stamped with virtual time: spacing >= period, exact schedule and tick count on the ideal clock, one-shots once and not early, nothing after termination, no leaked timer task, last-drop termination with timers pending; racing clock for expiry-vs-runnable races", "DESIGN.md#6 C10",
         "seeded simulation on virtual clock (ideal + racing)"),
 "C11": ("exploration", "virtual-clock boundary durations t-1 / t+1 (exact on the ideal clock: completes below, abandoned exactly at t above, caller error at enter+t, no effect afterwards, successor runs / actor fails), consistency rules on the racing clock", "DESIGN.md#6 C11",
         "seeded simulation on virtual clock with boundary durations"),
 "C12": ("exploration", "backlog invariant #returned-Ok minus #taken-out <= n evaluated on every prefix of the event log up to the end of the live receive loop; unbounded sends complete in their first poll; stop accepted against a full mailbox", "DESIGN.md#6 C12",
         "seeded simulation + prefix invariant over the event log"),
 "C14": ("exploration", "answers of Addr::stopped/running and WeakAddr::stopped compared with the simulator's ground truth (task-done event) for every termination cause x never/before/after awaited; registry dependents after an un-awaited termination", "DESIGN.md#6 C14",
         "seeded simulation + ground-truth comparison"),
 "C15": ("exploration", "all 15 non-empty subsets of strong handle kinds enumerated by run index x seeded conversion chains and schedules: context stop/restart/self-upgrade, tick rate, weak upgrades, identity", "DESIGN.md#6 C15",
         "seeded simulation + subset enumeration"),
 "C17": ("exploration", "joined value compared with the fold of the log and the stopped mark; at most one Some; None only when failed or taken; join return after stopped(); detach leaves the actor running", "DESIGN.md#6 C17",
         "seeded simulation + value-vs-log comparison"),
 "C06": ("fault_enumeration", "systematic single-fault enumeration per program: a fault-free run counts the target's callbacks K and task polls J, then one run per (kind, position) - started error, panic at the k-th callback, cancellation instead of the j-th poll, timeout failure, cancellation at a global step - under several schedule seeds (pairs of faults in the thorough tier); containment oracle over target, children, timers, registry and a bystander that calls the target from inside its own handler", "DESIGN.md#6 C06",
         "systematic fault enumeration (kind x position) per generated program + seeded schedules"),
 "C08": ("exploration", "concurrent registry histories (invoke/return stamped with the global event number, deaths pinned at the task-done event) checked for linearizability against a sequential registry model by DFS with memoisation; default-instance count vs witness", "DESIGN.md#6 C08",
         "seeded simulation + linearizability check against a sequential reference model"),
 "C09": ("exploration", "must / may / must-not delivery windows derived from subscribe / unsubscribe / publish / ping-barrier stamps; at-most-once; one common order per topic extending real-time publish order; nothing left alive at quiescence", "DESIGN.md#6 C09",
         "seeded simulation + delivery-window and common-order oracle"),
 "C13": ("exploration", "harness-scripted streams (gates fed by clients, virtual-time delays, never-ending / never-ready) with the select! tie-break drawn from the simulator's PRNG: items exactly once in stream order, nothing abandoned even with a timeout configured, finished-then-stopped once, termination by stop / last drop / stream end", "DESIGN.md#6 C13",
         "seeded simulation with scripted streams and simulator-owned select! tie-break"),
 "C16": ("exploration", "generated actor trees (depth <= 3, <= 6 nodes, three registration keys, outside holders): children never end before the parent's task, are released and stop gracefully afterwards (recursively), externally held ones live on; broadcasts exactly once to exactly the children registered under the type", "DESIGN.md#6 C16",
         "seeded simulation over generated actor trees + fault injection at the parent"),
 "C18": ("exploration", "the real spawner code of each runtime feature runs over a behavioural stub of that runtime's task handle (tokio/async-std detach on drop, smol cancels on drop); timing-independent programs x 15 spawn entry points x 3 runtimes x 3 schedules; canonical outcome records compared by the driver; every flavour must also satisfy the reference oracles (alive after spawn, C02-C05, C10, C17); the thorough tier also runs the schedule-dependent programs of nine other properties on all three builds under their reference oracles", "DESIGN.md#6 C18",
         "seeded simulation of three runtime builds + cross-runtime outcome-record comparison"),
}

NA = {
 "C19": "compile-time typing has no schedule, clock, fault or interleaving in it (a pure function of the program text): outside deterministic simulation, see DESIGN.md#6 C19",
}

def main():
    checks = []
    for p in props:
        pid = p["id"]
        if pid in CHECKS:
            level, text, ref, tech = CHECKS[pid]
            checks.append({
                "property_id": pid,
                "quick_cmd": f"./check {pid} quick",
                "thorough_cmd": f"./check {pid} thorough",
                "evidence_file": f"/verif/evidence/{pid}.json",
                "replay_cmd_template": "./check --replay {path}",
                "engine": "hsim",
                "level_claimed": {"category": level, "text": f"{SIM}; {text}", "design_ref": ref},
                "level_note": NOTE,
                "technique": "deterministic simulation with fault injection: " + tech,
            })
    na = []
    for p in props:
        pid = p["id"]
        if pid not in CHECKS:
            na.append({"property_id": pid, "reason": NA.get(pid, "check under construction; not claimed yet")})
    m = {
        "version": 1,
        "setup_cmd": "./check --setup",
        "hooks": {
            "guard": "--cfg hannibal_verif",
            "enable": "the generated shadow package (tools/gen_shadow.py: [lib] path=/repo/src/lib.rs, stub crates for tokio/async-std/smol/futures-timer, vendored futures-util and async-lock) has a build.rs that emits cargo:rustc-cfg=hannibal_verif; the single hook is hannibal::__verif_reset_context_ids() (src/context.rs), called by the harness at the start of every simulated run. Everything else is seamed at the crate boundary, see DESIGN.md#4",
            "baseline_off_cmd": "cd /repo && cargo test --workspace --no-fail-fast --offline",
            "source_commits": ["bab04b7"],
            "add_only": True,
        },
        "engines": [{
            "name": "hsim", "path": "harness/",
            "serves_properties": [c["property_id"] for c in checks],
            "kind_free_text": "deterministic simulation with fault injection: scenario generator, interpreter over hannibal's public API, oracles over the recorded history, minimiser, replay; runs on simrt/ with stubs/, vendor/futures-util and vendor/async-lock",
        }],
        "checks": checks,
        "not_applicable": na,
        "notes": "exit 0 held / exit 1 VIOLATION line with minimised replay file / exit 2 harness error. Genuine defects found and repaired by 'fix:' commits in /repo are listed in known_findings.json (status fixed).",
    }
    with open(os.path.join(HERE, "MANIFEST.json"), "w") as f:
        json.dump(m, f, indent=1)

main()
