#!/bin/sh
# developer helper: regenerate the shadow manifest for /repo and build the default (tokio) flavour
cd "$(dirname "$0")/.." && python3 tools/gen_shadow.py "${VERIF_REPO:-/repo}" && CARGO_NET_OFFLINE=true cargo build --release --offline "$@" 2>&1 | grep -E "^(error|warning: unused)" -A14 | head -${LINES_MAX:-80}
