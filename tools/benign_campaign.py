#!/usr/bin/env python3
"""Run every check (quick tier) against scratch copies of /repo with a BENIGN refactoring applied
(deliverables of sub-agents: <worktree>/refactors/r*/patch.diff). Any exit 1 / 2 is to be looked at:
either the refactoring is not benign after all, or an oracle demands more than its property.
usage: tools/benign_campaign.py <worktree> [...]    results: /tmp/benign/<worktree>-<r>.json"""
import glob, json, os, sys, time
sys.argv_saved = sys.argv[:]
HERE = os.path.dirname(os.path.abspath(__file__))
sys.path.insert(0, HERE)
import importlib.util
spec = importlib.util.spec_from_file_location("mc", os.path.join(HERE, "mutant_campaign.py"))
src = open(os.path.join(HERE, "mutant_campaign.py")).read().replace("\nmain()\n", "\n")
mc = {}
exec(compile(src, "mutant_campaign.py", "exec"), mc)
OUT = "/tmp/benign"
os.makedirs(OUT, exist_ok=True)
mc["sh"](f"mkdir -p {mc['VM']}")
mc["sh"](f"rsync -a --delete --exclude target --exclude .git --exclude replays /verif/ {mc['VM']}/")
for wt in sys.argv[1:]:
    for d in sorted(glob.glob(f"{wt}/refactors/r*")):
        if not os.path.exists(f"{d}/patch.diff"):
            continue
        name = f"{os.path.basename(wt)}-{os.path.basename(d)}"
        t0 = time.time()
        checks = mc["run_checks"](f"{d}/patch.diff", mc["PROPS"])
        rec = {"checks": checks, "alarms": [p for p, r in checks.items() if isinstance(r, dict) and r.get("exit") == 1],
               "harness_errors": [p for p, r in checks.items() if isinstance(r, dict) and r.get("exit") == 2], "wall_s": round(time.time() - t0),
               "summary": json.load(open(f"{d}/meta.json")).get("summary", "")[:600]}
        json.dump(rec, open(f"{OUT}/{name}.json", "w"), indent=1)
        print(name, "alarms", rec["alarms"], "errors", rec["harness_errors"], flush=True)
