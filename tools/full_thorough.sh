#!/bin/sh
# the registered thorough commands at full size, for the given VERIF_SEED values ("default" = unset)
cd "$(dirname "$0")/.."
for seed in "$@"; do
  for p in C01 C02 C03 C04 C05 C06 C07 C08 C09 C10 C11 C12 C13 C14 C15 C16 C17 C18; do
    if [ "$seed" = default ]; then ./check $p thorough 2>&1 | tail -6 | cut -c1-500
    else VERIF_SEED=$seed ./check $p thorough 2>&1 | tail -6 | cut -c1-500; fi
  done
done
