fn main() {
    println!("cargo:rustc-cfg=hannibal_verif");
    println!("cargo:rerun-if-changed=build.rs");
}
