//! Stub of futures-timer: `Delay` on simrt's virtual clock (deadline fixed in `new`, no helper thread).
use std::future::Future;
use std::pin::Pin;
use std::task::{Context, Poll};
use std::time::Duration;

pub struct Delay(simrt::Sleep);
impl Delay {
    pub fn new(dur: Duration) -> Delay {
        Delay(simrt::sleep(dur))
    }
    pub fn reset(&mut self, dur: Duration) {
        self.0 = simrt::sleep(dur);
    }
}
impl Future for Delay {
    type Output = ();
    fn poll(mut self: Pin<&mut Self>, cx: &mut Context<'_>) -> Poll<()> {
        Pin::new(&mut self.0).poll(cx)
    }
}
