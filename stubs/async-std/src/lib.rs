//! Behavioural stub of async-std for deterministic simulation.
//!
//! Semantics modelled (async-std 1.13 on async-global-executor / async-task):
//! * `task::spawn` schedules the future; the `JoinHandle` **detaches on drop**
//! * awaiting the handle yields the bare output; if the task failed the joiner panics
//!   ("task has failed", as async-task does)
//! * `task::sleep(d)` fixes its deadline when called (async-io `Timer::after`)
pub mod task {
    use std::future::Future;
    use std::pin::Pin;
    use std::task::{Context, Poll};
    use std::time::Duration;

    pub struct JoinHandle<T> {
        raw: simrt::RawJoin<T>,
    }
    impl<T> JoinHandle<T> {
        pub fn sim_task_id(&self) -> simrt::TaskId {
            self.raw.task
        }
    }
    impl<T> Unpin for JoinHandle<T> {}
    impl<T> Future for JoinHandle<T> {
        type Output = T;
        fn poll(self: Pin<&mut Self>, cx: &mut Context<'_>) -> Poll<T> {
            match self.get_mut().raw.poll_join(cx) {
                Poll::Pending => Poll::Pending,
                Poll::Ready(Ok(v)) => Poll::Ready(v),
                Poll::Ready(Err(_)) => panic!("task has failed"),
            }
        }
    }

    pub fn spawn<F, T>(future: F) -> JoinHandle<T>
    where
        F: Future<Output = T> + Send + 'static,
        T: Send + 'static,
    {
        let kind = if std::any::TypeId::of::<T>() == std::any::TypeId::of::<()>() {
            simrt::TaskKind::LibFuture
        } else {
            simrt::TaskKind::ActorLoop
        };
        JoinHandle {
            raw: simrt::spawn(kind, future),
        }
    }

    pub struct Sleep(simrt::Sleep);
    impl Future for Sleep {
        type Output = ();
        fn poll(mut self: Pin<&mut Self>, cx: &mut Context<'_>) -> Poll<()> {
            Pin::new(&mut self.0).poll(cx)
        }
    }
    pub fn sleep(dur: Duration) -> Sleep {
        Sleep(simrt::sleep(dur))
    }

    pub async fn yield_now() {
        simrt::yield_now().await
    }

    pub fn block_on<F: Future>(_future: F) -> F::Output {
        unimplemented!("verif stub: block_on is not used under simulation")
    }
}
