//! Behavioural stub of smol for deterministic simulation.
//!
//! Semantics modelled (smol 2.0 / async-task 4):
//! * `spawn` schedules the future and returns a `Task`
//! * **dropping a `Task` cancels it**: the task is marked closed and scheduled once more so the
//!   executor drops its future (never re-entrantly); it is not polled again
//! * `Task::detach` lets it run in the background
//! * awaiting the task yields the bare output; if the task failed the joiner panics
//! * `Timer::after(d)` fixes its deadline when called
use std::future::Future;
use std::pin::Pin;
use std::task::{Context, Poll};
use std::time::{Duration, Instant};

pub struct Task<T> {
    raw: Option<simrt::RawJoin<T>>,
}
impl<T> Task<T> {
    pub fn detach(mut self) {
        self.raw.take();
    }
    pub fn is_finished(&self) -> bool {
        self.raw.as_ref().is_some_and(|r| r.is_finished())
    }
    pub fn sim_task_id(&self) -> simrt::TaskId {
        self.raw.as_ref().map(|r| r.task).unwrap_or(simrt::NO_TASK)
    }
}
impl<T> Unpin for Task<T> {}
impl<T> Drop for Task<T> {
    fn drop(&mut self) {
        if let Some(raw) = self.raw.take() {
            if !raw.is_finished() {
                simrt::cancel(raw.task);
            }
        }
    }
}
impl<T> Future for Task<T> {
    type Output = T;
    fn poll(self: Pin<&mut Self>, cx: &mut Context<'_>) -> Poll<T> {
        let this = self.get_mut();
        let raw = this.raw.as_mut().expect("Task polled after completion");
        match raw.poll_join(cx) {
            Poll::Pending => Poll::Pending,
            Poll::Ready(Ok(v)) => Poll::Ready(v),
            Poll::Ready(Err(_)) => panic!("task has failed"),
        }
    }
}

pub fn spawn<T: Send + 'static>(future: impl Future<Output = T> + Send + 'static) -> Task<T> {
    let kind = if std::any::TypeId::of::<T>() == std::any::TypeId::of::<()>() {
        simrt::TaskKind::LibFuture
    } else {
        simrt::TaskKind::ActorLoop
    };
    Task {
        raw: Some(simrt::spawn(kind, future)),
    }
}

pub struct Timer(simrt::Sleep);
impl Timer {
    pub fn after(duration: Duration) -> Timer {
        Timer(simrt::sleep(duration))
    }
}
impl Future for Timer {
    type Output = Instant;
    fn poll(mut self: Pin<&mut Self>, cx: &mut Context<'_>) -> Poll<Instant> {
        // the returned Instant is never used by hannibal; it is the only real-clock read in the
        // stubs and its value cannot influence the simulation
        Pin::new(&mut self.0).poll(cx).map(|_| Instant::now())
    }
}

pub mod future {
    pub async fn yield_now() {
        simrt::yield_now().await
    }
}

pub fn block_on<T>(_future: impl Future<Output = T>) -> T {
    unimplemented!("verif stub: block_on is not used under simulation")
}
