//! Behavioural stub of tokio for deterministic simulation.
//!
//! Semantics modelled (tokio 1.44):
//! * `spawn` schedules the future as a new task; the `JoinHandle` **detaches on drop**
//! * awaiting the handle yields `Ok(output)`, or `Err(JoinError)` if the task panicked or was
//!   aborted; the task's future is dropped before the output becomes visible to the joiner
//! * `time::sleep(d)` fixes its deadline when called
use std::future::Future;
use std::pin::Pin;
use std::task::{Context, Poll};

pub mod task {
    use super::*;

    #[derive(Debug)]
    pub struct JoinError {
        cancelled: bool,
    }
    impl JoinError {
        pub fn is_cancelled(&self) -> bool {
            self.cancelled
        }
        pub fn is_panic(&self) -> bool {
            !self.cancelled
        }
    }
    impl std::fmt::Display for JoinError {
        fn fmt(&self, f: &mut std::fmt::Formatter<'_>) -> std::fmt::Result {
            if self.cancelled {
                write!(f, "task was cancelled")
            } else {
                write!(f, "task panicked")
            }
        }
    }
    impl std::error::Error for JoinError {}

    pub struct JoinHandle<T> {
        pub(crate) raw: simrt::RawJoin<T>,
    }
    impl<T> JoinHandle<T> {
        pub fn abort(&self) {
            simrt::cancel(self.raw.task)
        }
        pub fn is_finished(&self) -> bool {
            self.raw.is_finished()
        }
        /// verif only: the simulator's id of the task behind this handle
        pub fn sim_task_id(&self) -> simrt::TaskId {
            self.raw.task
        }
    }
    impl<T> Unpin for JoinHandle<T> {}
    impl<T> Future for JoinHandle<T> {
        type Output = Result<T, JoinError>;
        fn poll(self: Pin<&mut Self>, cx: &mut Context<'_>) -> Poll<Self::Output> {
            self.get_mut().raw.poll_join(cx).map(|r| {
                r.map_err(|how| JoinError {
                    cancelled: how == simrt::DoneHow::Cancelled,
                })
            })
        }
    }
    // dropping a JoinHandle detaches: nothing to do.

    pub fn spawn<F>(future: F) -> JoinHandle<F::Output>
    where
        F: Future + Send + 'static,
        F::Output: Send + 'static,
    {
        super::spawn(future)
    }
}

pub fn spawn<F>(future: F) -> task::JoinHandle<F::Output>
where
    F: Future + Send + 'static,
    F::Output: Send + 'static,
{
    let kind = if std::any::TypeId::of::<F::Output>() == std::any::TypeId::of::<()>() {
        simrt::TaskKind::LibFuture
    } else {
        simrt::TaskKind::ActorLoop
    };
    task::JoinHandle {
        raw: simrt::spawn(kind, future),
    }
}

pub mod time {
    use super::*;
    pub use std::time::Duration;

    pub struct Sleep(simrt::Sleep);
    impl Future for Sleep {
        type Output = ();
        fn poll(mut self: Pin<&mut Self>, cx: &mut Context<'_>) -> Poll<()> {
            Pin::new(&mut self.0).poll(cx)
        }
    }
    pub fn sleep(duration: Duration) -> Sleep {
        Sleep(simrt::sleep(duration))
    }
}

pub mod runtime {
    use super::*;
    pub struct Runtime;
    impl Runtime {
        pub fn new() -> std::io::Result<Runtime> {
            Ok(Runtime)
        }
        pub fn block_on<F: Future>(&self, _future: F) -> F::Output {
            unimplemented!("verif stub: block_on is not used under simulation; drive simrt::step() instead")
        }
    }
}
