//! Behavioural stub of tokio for deterministic simulation.
//!
//! Semantics modelled (tokio 1.44):
//! * `spawn` schedules the future as a new task; the `JoinHandle` **detaches on drop**
//! * awaiting the handle yields `Ok(output)`, or `Err(JoinError)` if the task panicked or was
//!   aborted; the task's future is dropped before the output becomes visible to the joiner
//! * `time::sleep(d)` fixes its deadline when called
use std::future::Future;
use std::pin::Pin;
use std::task::{Context, Poll};

pub mod task {
    use super::*;

    #[derive(Debug)]
    pub struct JoinError {
        cancelled: bool,
    }
    impl JoinError {
        pub fn is_cancelled(&self) -> bool {
            self.cancelled
        }
        pub fn is_panic(&self) -> bool {
            !self.cancelled
        }
    }
    impl std::fmt::Display for JoinError {
        fn fmt(&self, f: &mut std::fmt::Formatter<'_>) -> std::fmt::Result {
            if self.cancelled {
                write!(f, "task was cancelled")
            } else {
                write!(f, "task panicked")
            }
        }
    }
    impl std::error::Error for JoinError {}

    pub struct JoinHandle<T> {
        pub(crate) raw: simrt::RawJoin<T>,
    }
    impl<T> JoinHandle<T> {
        pub fn abort(&self) {
            simrt::cancel(self.raw.task)
        }
        pub fn is_finished(&self) -> bool {
            self.raw.is_finished()
        }
        /// verif only: the simulator's id of the task behind this handle
        pub fn sim_task_id(&self) -> simrt::TaskId {
            self.raw.task
        }
    }
    impl<T> Unpin for JoinHandle<T> {}
    impl<T> Future for JoinHandle<T> {
        type Output = Result<T, JoinError>;
        fn poll(self: Pin<&mut Self>, cx: &mut Context<'_>) -> Poll<Self::Output> {
            self.get_mut().raw.poll_join(cx).map(|r| {
                r.map_err(|how| JoinError {
                    cancelled: how == simrt::DoneHow::Cancelled,
                })
            })
        }
    }
    // dropping a JoinHandle detaches: nothing to do.

    pub fn spawn<F>(future: F) -> JoinHandle<F::Output>
    where
        F: Future + Send + 'static,
        F::Output: Send + 'static,
    {
        super::spawn(future)
    }

    /// yields to the (simulated) scheduler once
    pub async fn yield_now() {
        simrt::yield_now().await
    }
}

pub fn spawn<F>(future: F) -> task::JoinHandle<F::Output>
where
    F: Future + Send + 'static,
    F::Output: Send + 'static,
{
    let kind = if std::any::TypeId::of::<F::Output>() == std::any::TypeId::of::<()>() {
        simrt::TaskKind::LibFuture
    } else {
        simrt::TaskKind::ActorLoop
    };
    task::JoinHandle {
        raw: simrt::spawn(kind, future),
    }
}

pub mod time {
    use super::*;
    pub use std::time::Duration;

    pub struct Sleep(simrt::Sleep);
    impl Future for Sleep {
        type Output = ();
        fn poll(mut self: Pin<&mut Self>, cx: &mut Context<'_>) -> Poll<()> {
            Pin::new(&mut self.0).poll(cx)
        }
    }
    pub fn sleep(duration: Duration) -> Sleep {
        Sleep(simrt::sleep(duration))
    }

    /// virtual-clock instant
    #[derive(Clone, Copy, Debug, PartialEq, Eq, PartialOrd, Ord)]
    pub struct Instant(u64);
    impl Instant {
        pub fn now() -> Instant {
            Instant(simrt::now())
        }
        pub fn elapsed(&self) -> Duration {
            Duration::from_nanos(simrt::now().saturating_sub(self.0))
        }
        pub fn duration_since(&self, earlier: Instant) -> Duration {
            Duration::from_nanos(self.0.saturating_sub(earlier.0))
        }
    }
    impl std::ops::Add<Duration> for Instant {
        type Output = Instant;
        fn add(self, d: Duration) -> Instant {
            Instant(self.0.saturating_add(d.as_nanos() as u64))
        }
    }
    pub fn sleep_until(deadline: Instant) -> Sleep {
        Sleep(simrt::sleep_ns(deadline.0.saturating_sub(simrt::now())))
    }

    pub mod error {
        #[derive(Debug, PartialEq, Eq)]
        pub struct Elapsed(());
        impl Elapsed {
            pub(crate) fn new() -> Self {
                Elapsed(())
            }
        }
        impl std::fmt::Display for Elapsed {
            fn fmt(&self, f: &mut std::fmt::Formatter<'_>) -> std::fmt::Result {
                write!(f, "deadline has elapsed")
            }
        }
        impl std::error::Error for Elapsed {}
    }

    /// `tokio::time::timeout`: the future is polled first, then the timer (as tokio does)
    pub struct Timeout<F> {
        fut: Pin<Box<F>>,
        delay: simrt::Sleep,
    }
    impl<F: Future> Future for Timeout<F> {
        type Output = Result<F::Output, error::Elapsed>;
        fn poll(self: Pin<&mut Self>, cx: &mut Context<'_>) -> Poll<Self::Output> {
            let this = self.get_mut();
            if let Poll::Ready(v) = this.fut.as_mut().poll(cx) {
                return Poll::Ready(Ok(v));
            }
            match Pin::new(&mut this.delay).poll(cx) {
                Poll::Ready(()) => Poll::Ready(Err(error::Elapsed::new())),
                Poll::Pending => Poll::Pending,
            }
        }
    }
    pub fn timeout<F: Future>(duration: Duration, future: F) -> Timeout<F> {
        Timeout { fut: Box::pin(future), delay: simrt::sleep(duration) }
    }
}

pub mod runtime {
    use super::*;
    pub struct Runtime;
    impl Runtime {
        pub fn new() -> std::io::Result<Runtime> {
            Ok(Runtime)
        }
        pub fn block_on<F: Future>(&self, _future: F) -> F::Output {
            unimplemented!("verif stub: block_on is not used under simulation; drive simrt::step() instead")
        }
    }
}
